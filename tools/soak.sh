#!/bin/sh
# usage: tools/soak.sh "<ids>" <first seed> <last seed> [tier]   -- run checks with many seeds, list non-OK runs
IDS=$1; A=$2; B=$3; TIER=${4:-quick}
cd "$(dirname "$0")/.." || exit 2
for sd in $(seq $A $B); do
  for id in $IDS; do
    out=$(VERIF_SEED=$sd bin/check $id $TIER 2>&1); rc=$?
    if [ $rc != 0 ]; then echo "== $id seed=$sd rc=$rc"; echo "$out" | grep -v WARNING | tail -6; else echo "ok $id seed=$sd"; fi
  done
done
