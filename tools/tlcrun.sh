#!/bin/sh
# usage: tools/tlcrun.sh <seconds> <Module> <cfg> [extra TLC args]   (development aid)
T=$1; M=$2; C=$3; shift 3
D=$(mktemp -d /tmp/edztlc-XXXXXX)
cd "$(dirname "$0")/../spec" || exit 2
timeout "$T" java -Xmx8g -XX:+UseParallelGC -cp /opt/veriftools/tla/tla2tools.jar:/opt/veriftools/tla/CommunityModules-deps.jar tlc2.TLC -workers 16 -metadir "$D" -noGenerateSpecTE -config "$C" "$@" "$M.tla" 2>&1
rc=$?
rm -rf "$D"
exit $rc
