#!/venv/bin/python
"""Regenerate MANIFEST.json from the table below (keeps it valid at all times)."""
import json, os, sys
VERIF = os.path.dirname(os.path.dirname(os.path.abspath(__file__)))
BASE = ("cd /repo && env -u EDZED_VERIF /venv/bin/python -m pytest -ra -q -p no:cacheprovider "
        "--timeout=900 --continue-on-collection-errors")

MC = 'model_checking'
CHECKS = {
 # id: (category, technique, text, note, design_ref)
 'C20': (MC, 'TLC exhaustive state graph of Counter.tla + one implementation test per transition + batch trace validation',
         'Counter.tla is model-checked exhaustively (all modulo values of the property, InRange, ReturnIsOutput, '
         'PutMissingHarmless); every transition of that state graph and seeded random long sequences are executed '
         'on the real Counter and each recorded step must be the corresponding spec action (TLC trace validation). '
         'Counter is state-determined, so transition coverage covers all sequences over the model constants.',
         'integers / halves with |x|<2^30; TLC, the JSON reader and the harness projection are trusted', '6 C20'),
}
NA = {}
ALL = [f'C{n:02d}' for n in range(1, 21)]

def main():
    checks = []
    for pid in ALL:
        if pid not in CHECKS:
            continue
        cat, tech, text, note, ref = CHECKS[pid]
        checks.append({
            'property_id': pid,
            'quick_cmd': f'./bin/check {pid} quick',
            'thorough_cmd': f'./bin/check {pid} thorough',
            'evidence_file': f'/verif/evidence/{pid}.json',
            'replay_cmd_template': f'./bin/check {pid} --replay {{path}}',
            'engine': 'tlc-trace',
            'level_claimed': {'category': cat, 'text': text, 'design_ref': f'DESIGN.md section {ref}'},
            'level_note': note,
            'technique': tech,
        })
    na = [{'property_id': p, 'reason': NA.get(p, 'check not built yet in this session (work in progress; see DESIGN.md section 6 for the planned TLA+ model and binding)')}
          for p in ALL if p not in CHECKS]
    m = {
        'version': 1,
        'setup_cmd': './bin/setup',
        'hooks': {
            'guard': 'EDZED_VERIF',
            'enable': 'EDZED_VERIF=1 PYTHONPATH=/repo (pure Python, nothing to build; bin/check sets both)',
            'baseline_off_cmd': BASE,
            'source_commits': [],
            'add_only': True,
        },
        'engines': [{
            'name': 'tlc-trace', 'path': '/verif/bin/check',
            'serves_properties': [c['property_id'] for c in checks],
            'kind_free_text': 'TLA+ specifications in /verif/spec model-checked by TLC; stimuli (TLC-exported '
                              'behaviours, enumerators, seeded random) executed on the real edzed under a '
                              'virtual-time asyncio loop; recorded traces validated in batch by TLC against '
                              'trace specifications that reuse the model actions',
        }],
        'checks': checks,
        'not_applicable': na,
        'notes': 'See DESIGN.md. Known findings: /verif/known_findings.json. Seeded changes: /verif/seeded/.',
    }
    with open(os.path.join(VERIF, 'MANIFEST.json'), 'w') as f:
        json.dump(m, f, indent=1)
        f.write('\n')

if __name__ == '__main__':
    main()
