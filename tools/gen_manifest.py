#!/venv/bin/python
"""Regenerate MANIFEST.json from the table below (keeps it valid at all times)."""
import json, os, sys
VERIF = os.path.dirname(os.path.dirname(os.path.abspath(__file__)))
BASE = ("cd /repo && env -u EDZED_VERIF /venv/bin/python -m pytest -ra -q -p no:cacheprovider "
        "--timeout=900 --continue-on-collection-errors")

MC = 'model_checking'
CHECKS = {
 # id: (category, technique, text, note, design_ref)
 'C20': (MC, 'TLC exhaustive state graph of Counter.tla + one implementation test per transition + batch trace validation (integers up to 2^90 as base-2^15 digits)',
         'Counter.tla is model-checked exhaustively (all modulo values of the property, InRange, ReturnIsOutput, '
         'PutMissingHarmless); every transition of that state graph and seeded random long sequences are executed '
         'on the real Counter and each recorded step must be the corresponding spec action (TLC trace validation). '
         'Counter is state-determined, so transition coverage covers all sequences over the model constants. '
         'Beyond the constants: Apalache proves InRange / ReturnIsOutput inductive over all integers (APA_Counter.tla).',
         'integers / halves with |x|<2^30; TLC, the JSON reader and the harness projection are trusted', '6 C20'),
}
TRUSTED = 'TLC, the JSON reader, the virtual-time loop and the harness projection (Python value -> integer code) are trusted; nothing is claimed about executions that were not generated'
CHECKS.update({
 'C01': (MC, 'TLC model checking of Sim.tla/CBlocks.tla (all acyclic topologies, all input vectors, bursts) + batch trace validation of real runs against the monitor SimTrace.tla',
         'Sim.tla (the _simulate loop: evalSet, queue, counter, select_blk) is model-checked exhaustively for all acyclic topologies of <=3 blocks '
         'over 2 inputs (IdleConsistent, EvalSetSound, BoundedWork) under the code heuristic and under any evaluation order; the same topologies and '
         'seeded random circuits (groups, Consts, _not_ shortcuts, Compare/Override/FuncBlock, feedback events, creation orders) run on the real '
         'simulator; every eval_block() call and every idle point is validated by TLC against the monitor, IdleConsistent evaluated in every state.',
         TRUSTED + '; FuncBlock is represented by a fixed menu of functions', '6 C01'),
 'C02': (MC, 'TLC model checking of OutEvents.tla (all histories <=5) + batch trace validation of real set_output/eval_block deliveries',
         'OutEvents.tla (AssignS/AssignC with filters from Filters.tla) is model-checked (Chained, EveryAssignmentSeen, Order); real senders '
         '(probe SBlock, Input, FuncBlock) with 0..3 events per trigger and filters are driven through assignment histories over objects in equality '
         'classes (1/True/1.0, equal tuples); each assignment line must carry exactly the predicted deliveries in order, nothing late.',
         TRUSTED + '; values are compared by equality class, identity of the stored object is not asserted', '6 C02'),
 'C03': (MC, 'TLC model checking of Fsm.tla (all 2x2 tables x chain scripts) + sharpness self-test + batch trace validation of generated FSM classes',
         'Fsm.tla defines the complete observable effect of one event() call (Handle); TLC checks RejectChangesNothing, IntermediateInvisible, '
         'OrderOfActions, DataOfCausingEvent for all 4096 tables x chained-entry scripts and must FIND the stale-data deviation; generated edzed.FSM '
         'subclasses (methods / instance callbacks / observers) replay event sequences and every recorded call must equal Handle() field by field.',
         TRUSTED + '; timers are excluded here (C04)', '6 C03'),
 'C10': (MC, 'TLC model checking of Sim.tla on cyclic topologies with feedback + batch trace validation (bounded work, no false alarm, idle => consistent)',
         'MC_Sim checks BoundedWork, IdleOnlyIfSolvable, UnstableOnlyAtLimit on all (cyclic) 2x2 topologies with event feedback and NoFalseAlarm on '
         'acyclic ones; random cyclic networks, event-feedback loops and reconvergent DAGs run on the real simulator; the monitor bounds the '
         'evaluations per burst, forbids "unstable" for networks with few paths and demands consistency at every idle point; a hanging execution is a violation.',
         TRUSTED, '6 C10'),
 'C11': (MC, 'TLC model checking of Guard.tla (all event graphs of 3 nodes; FSM nodes with zero-length timed states) + 2 sharpness self-tests + batch trace validation of enter/leave records',
         'Guard.tla threads the _event_active flags through depth-first synchronous delivery; TLC checks Released, Depth1, RecursionIsFatal for all '
         'graphs with 3 nodes (2 nodes with all four kinds in the quick tier) and must find the flag-not-reset and the zero-timer-window deviations; the graphs are built from real probe/Input/Counter/FSM/Repeat blocks with '
         'filters and EventCond; the enter/leave/fail records seen at SBlock.event(), the exception, Circuit.error and a lock probe of every block '
         'after each external event are validated by TLC.',
         TRUSTED, '6 C11'),
 'C16': (MC, 'TLC evaluation of Filters.tla laws (Edge truth table, chain law, Delta state machine) + batch trace validation of real Event.send pipelines',
         'Filters.tla defines Pipe/Chain/Edge/Delta/IfOutput/IfNotInitialized; TLC checks the Edge table against its documentation clauses, the '
         'DataEdit chain law and the Delta memory rule; real Event.send() with pipelines of <=3 filters (all Edge tables, Delta sequences, DataEdit '
         'chains x all dicts over 3 keys, control blocks changing, sends during initialisation) must return and deliver exactly what Pipe() yields.',
         TRUSTED, '6 C16'),
 'C17': (MC, 'TLC exhaustive model checking of Input.tla (all validator tables on 3 values) + batch trace validation of real Input/InputExp',
         'Input.tla is model-checked for every allowed/check/schema table over a 3-value domain (OutputAlwaysAccepted, RejectedChangesNothing); '
         'real Input and InputExp blocks with generated validators (truthy/falsy results, raising schemas), initdef/expired/restored values replay put '
         'sequences and every construct/put line must be the spec action.',
         TRUSTED + '; restore validation is claimed for Input only', '6 C17'),
})
CHECKS.update({
 'C15': (MC, 'TLC model checking of Circuit.tla (all construction scripts over 3 blocks; two-pass procedure = declarative definition) + sharpness self-test + batch trace validation of real finalize()/start',
         'Circuit.tla defines the finalized connection data declaratively (Resolve, iconn/oconn biconditional, unique inverter) and as the two-pass '
         'procedure of _finalize; TLC proves they coincide for all scripts over 3 blocks and must find the single-pass deviation; random construction '
         'scripts (<=8 blocks, references by object / name / _not_ shortcut / Const / plain constant, groups, events and filter control blocks by name, '
         'invalid references of 13 classes) run on the real edzed with explicit finalize() or a start; the recorded inputs / iconnections / oconnections / '
         'get_conf / Event.dest / frozen-ness must equal the specification.',
         TRUSTED, '6 C15'),
})
CHECKS.update({
 'C04': (MC, 'TLC model checking of FsmTimed.tla (implementation-shaped handles/_active_timer refine the functional Handle(); all 2-state machines on a tick grid, starts from saved states with the output events coming back) + 3 sharpness self-tests + TLC-exported schedules and random schedules replayed on real FSM/Timer/InputExp, batch trace validation',
         'FsmTimed.tla defines state and pending timer after every event (duration precedence event item > t_STATE > class default, <=0 immediately as a chained '
         'transition, INF never, none = error, rejected events keep the timer, accepted ones cancel it); MC_FsmTimed checks AtMostOnePending, Refines, NoStaleFire, '
         'ReportedIsPending, NothingAfterStop on the tick grid and must find the no-cancel and the fired-timer-kept deviations; environment histories exported '
         'from TLC simulation plus random schedules drive generated timed FSMs, Timer (t_on/t_off/t_period, restartable or not) and InputExp on the virtual-time '
         'loop; every external event, every expiry (top-level FSM.event call by the loop), stop and end line is validated: expiry exactly at the due tick, never '
         'overdue, the FSM handles in the loop heap = the one predicted timer, get_state() expiry = that timer, nothing pending or firing after stop.',
         TRUSTED + '; durations are multiples of 0.25 s; same-instant order of stimulus and expiry is left to asyncio', '6 C04'),
})
CHECKS.update({
 'C18': (MC, 'TLC model checking of Repeat.tla (two Repeat blocks in series on a tick grid) + TLC-exported arrival patterns and random ones replayed on real Repeat chains (explicit and Event(..., repeat=)), one validated trace per block',
         'Repeat.tla defines Recv/Tick (forward at once with repeat=0, source/orig_source, numbering restart, count bound, output = last repeat number); MC_Repeat checks '
         'CountBound, OutputIsLastRepeat, Pace, RestartOnNew, ProbeSeesLatest, SilentAfterStop for a chain of two blocks, all counts, arrivals before/at/after repetitions; '
         'behaviours exported from TLC simulation and random patterns drive chains of 1..3 real Repeat blocks on the virtual-time loop; every reception at every block and at the '
         'probe is recorded; per block: each repetition exactly one interval after the last event sent, never overdue, data of the most recent event, next number, nothing after stop.',
         TRUSTED + '; intervals are multiples of 0.25 s; a repetition and an arrival at the same virtual instant may come in either order (but the old event must not follow the new one)', '6 C18'),
})
CHECKS.update({
 'C19': ('other', 'reference evaluation against TLA+ definitions (Durations.tla, laws model-checked by TLC in MC_Durations) of cases recorded from the real convert/time_period/timestr/timestr_approx; strings rendered and split by the harness',
         'Durations.tla defines validity (at least one part, fraction only in the smallest unit present, years/months zero), the unit arithmetic with exact '
         'second/millisecond pairs, the d/h/m/s decomposition and the parts shown by timestr, rounding to prec decimals, the documented rounding step and '
         'format class of timestr_approx; TLC checks laws of these definitions on grids (decomposition is the inverse of the arithmetic, rounding idempotent and '
         'within half a step, step monotone) and then evaluates every recorded case: convert(render(x)) raises iff ~Valid(x) else equals Value(x) for the '
         'traditional and the ISO rendering (unit case, blanks, point/comma, optional final s), negative numbers -> 0, None -> None, timestr components / shown '
         'parts / decimals and convert(timestr(n)) = n, |timestr_approx(n) - n| < step, documented-malformed strings raise.',
         'level other: the lexical side (regular expressions of timeunits.py) is not modelled in TLA+; strings come from the harness renderer and output strings are '
         'split by a harness regex; rounding ties are excluded; floats up to 1e7 s with <= 6 decimals; TLC and the JSON reader are trusted', '6 C19'),
})
CHECKS.update({
 'C13': ('other', 'reference evaluation against TLA+ definitions (Intervals.tla: normal form, membership rules; laws model-checked by TLC in MC_Intervals) of cases recorded from the real TimeInterval/DateInterval/DateTimeInterval; notations rendered by the harness',
         'Intervals.tla defines the normal form (sorted full-length numeric ranges) and membership: time-of-day ranges left-closed/right-open wrapping around midnight '
         '(equal endpoints = whole day), date ranges inclusive wrapping around the year end, date-time ranges never wrapping; TLC checks laws (wrap = complement of the '
         'swapped range, closedness, Normal idempotent and membership-preserving) and then evaluates every recorded case: as_list() of every notation (traditional strings, '
         'ISO strings, integer sequences of all accepted lengths, mixed ranges, sets, all separators / delimiters / terminator, blanks, month names in any case and abbreviation) '
         '= Normal(abstract), feeding as_list() and as_string() back gives the same, membership of both endpoints and their +-1 us / +-1 day neighbours and random moments, '
         'documented-malformed inputs raise.',
         'level other: the lexical side (regular expressions of timeinterval.py) is not modelled in TLA+; strings come from the harness renderer; ambiguous strings the docs warn '
         'about are not generated; weekday handling of TimeDate.parse belongs to C07; TLC, the JSON reader and datetime are trusted', '6 C13'),
})
CHECKS.update({
 'C12': (MC, 'TLC model checking of OutputAsync.tla (operational model of the three modes on a tick grid, M1-M6 + liveness under weak fairness) + TLC-exported and random arrival patterns replayed on the real OutputAsync, batch trace validation against the permissive monitor OutputAsyncTrace.tla',
         'OutputAsync.tla models wait / cancel / start mode with urgent Start/Cancel/Finish/Release steps, guard sleep as part of a run, stop_data; TLC checks every put resolved, one at a time, '
         'arrival order (wait), cancel only for a newer event / newest never cancelled (cancel), start at once (start), output = runs not finished, guard respected, stop_data last, '
         'and that after stop everything completes (liveness). Behaviours exported from TLC simulation of all three modes and random patterns (bursts, arrivals during runs and guard sleeps, '
         'failing coroutines, data-less events, short and long mode names) run on the real block under the virtual-time loop; put / output / coroutine start / end / result / stop lines are '
         'validated by the monitor: exactly one result with the original data, mode rules at every start and cancellation, output +1/-1 bracketing each run with the release exactly guard_time '
         'after the coroutine ended, completion within stop_timeout, nothing left.',
         TRUSTED + '; run durations and guard times are multiples of 0.25 s; InExecutor (threads) is not exercised; the operational model assumes a stop_timeout large enough for the pending work; the monitor also covers short time-outs (stop bounded by stop_timeout + guard_time), where a genuine defect of OutputAsync is recorded as a known finding (known_findings.json, DESIGN.md section 7)', '6 C12'),
})
CHECKS.update({
 'C08': (MC, 'TLC model checking of Lifecycle.tla via MC_Lifecycle (run_forever at await-point granularity: start loop, yield, async init, sync init, simulate, caught, consume, async and sync clean-up; abort / cancellation at every step; all compositions of 2 (thorough: 3) blocks x one fault site) + sharpness self-test (init tasks not cancelled) + random compositions x fault sites x termination causes run on the real simulator, batch trace validation against the monitor LifecycleTrace.tla',
         'Lifecycle.tla models run_forever with its await points, abort(), the suppressed and the fatal fault sites, the init / main / stop tasks and the two-phase clean-up; TLC checks StoppedExactlyOnce, AsyncFirst, NothingLeft '
         '(must fail when only the awaited init task is cancelled), FirstWins, NeverReadyAgain. Compositions of plain / Timer / Repeat (also stop_timeout=0) / OutputAsync / ValuePoll / InitAsync / slow asynchronous clean-up / '
         'FuncBlock / control-event triggers (Event.shutdown(), Event.abort() and the long form, from outside, from inside the simulation task, already at initialisation) with one fault site and every termination cause '
         '(shutdown(), supporting task returning / failing, SIGTERM, control events, abort(), abort before start) at chosen instants and loop steps run under the virtual-time loop; the monitor validates start / stop / '
         'stop_async records, the reported error, asyncio.all_tasks() and the loop heap afterwards, restart and modification attempts.',
         TRUSTED + '; counting probes wrap start/stop/stop_async/init_regular of the real blocks (faults are raised after the block\'s own housekeeping in stop paths, before it in start); stop_data order is checked under C12', '6 C08'),
 'C09': (MC, 'TLC model checking of Lifecycle.tla (FirstWins, NeverReadyAgain) + orderings of 1..3 error sources run on the real simulator, batch trace validation against LifecycleTrace.tla',
         'The monitor keeps the first error delivered to the simulator (abort() calls seen at Circuit.abort, injected fatal faults logged where they are raised: event handler - also behind a block that swallows the exception and '
         'from inside the simulation task -, calc_output, synchronous initialisation, main task) and demands that run_forever(), Circuit.error, a later shutdown() and run() report exactly it (cancellation = normal stop; '
         'otherwise the first failing supporting task), that non-fatal kinds (unknown event type, missing parameter, failing init_async / stop / stop_async) change nothing and the circuit stays ready, that later abort() calls never '
         'replace the error and that the circuit is never ready again.',
         TRUSTED + '; a synchronous initialisation routine failing inside an early initialisation triggered by an external event is fatal like any other (the sender gets the exception AND the simulation stops: repaired in edzed by 7070d85, before that the monitor tolerated such runs too leniently)', '6 C09'),
 'C14': (MC, 'TLC model checking of Lifecycle.tla (ReadyOnlyWhileRunning) + ExtEvent.send() attempts in every phase with all data shapes on the real simulator, batch trace validation against LifecycleTrace.tla (source rule on character codes)',
         'ExtEvent.send() is attempted before the task exists, before it has run, during (slow) asynchronous initialisation, while running, in the very loop step of the stop request, during a slow asynchronous clean-up and after the stop, '
         'for abort(), SIGTERM and control events; the monitor computes readiness from the begin / abort / fault records and demands delivery with the handler\'s data iff ready, EdzedInvalidState and no delivery otherwise; the delivered '
         '\'source\' must equal the TLA+ ExpectedSource of the caller\'s item (none, prefixed, unprefixed, empty, underscore names, names of automatic blocks), value and other items unchanged; block names beginning with an underscore are '
         'refused and no block name starts with the external prefix.',
         TRUSTED + '; automatic names of user classes whose class name itself starts with ext_ are not asserted either way (DESIGN section 7-10)', '6 C14'),
})
CHECKS.update({
 'C05': (MC, 'TLC model checking of Init.tla (operational Run() = declarative CanInit() for every configuration of 2 blocks in both creation orders; source order; steps before events) + sharpness self-test + configurations x all creation orders run on the real simulator, batch trace validation',
         'Init.tla defines the three initialisation phases with event cascades (SetOut / Event / Restore / Regular, asynchronous completions) and, independently, which blocks can be initialised at all (CanInit, order independent); '
         'TLC proves Success(Run(cfg, order)) = CanInit(cfg) and AtMostOnce / SourceOrder / StepsBeforeEvent for all 25 088 two-block configurations x both orders and must find the deviation "events handled without the pending steps". '
         'Probe blocks generated from 1..4-block configurations (saved state ok / no-init / raising / absent, asynchronous routine ok / raising / hanging with timeout 0 or positive, regular routine, initdef, initialising output events, '
         'a combinational block whose first evaluation may fail, optional block with asynchronous clean-up) start in every creation order; each routine call and assignment is validated line by line (restore first, async only while '
         'uninitialised with a positive timeout after the saved states, initdef only while uninitialised, handler only after the synchronous steps) and wait_init() must return iff CanInit and the first evaluation succeeds, with all '
         'outputs equal to the predicted sources, the simulation running, within the largest init_timeout; otherwise it must raise with the simulation terminated.',
         TRUSTED + '; asynchronous routines end either before every timeout or never (how far a routine with a short timeout may overrun while another one is awaited is unspecified); completion exactly at the timeout is excluded', '6 C05'),
})
CHECKS.update({
 'C06': (MC, 'TLC model checking of Persist.tla (storage while running: StoreIsCurrent, NoWriteAfterHandlerError, NothingSavedIfStartFailed, StopSavesAll; restart laws) + sharpness self-test + event histories with crash points and restarts run on real Counter / Input / Timer / InputExp / generated FSM, batch trace validation',
         'Persist.tla defines when the storage is written (after initialisation, after every handled event of a persistent sync_state block, at a stop of a successfully started simulation together with the time stamp; never for a block whose '
         'handler failed, never when the start failed) and what a restart does with a snapshot (Discarded: expiration measured since the stop, timer ran out during the downtime; otherwise restored unchanged with the same absolute expiry). '
         'Histories of external events (accepted, rejected, unknown types, a handler failing before / after it modified the state, timer expiries) run under the virtual clock with a copying storage, optionally pre-seeded, with failing '
         'start() or an abort in the first loop iteration; after every step the storage is compared with the live get_state(); the application is then restarted from the storage as it was at sampled lines with the wall clock advanced, '
         'expiration settings per block, stale and reserved keys, also with no persistent block at all; restored state, absolute timer expiry, corresponding output, entry actions not re-run and the fall-back to the normal initialisation '
         'must equal the specification.',
         TRUSTED + '; the storage back-end stores copies (a plain dict would alias the FSM state data); for snapshots without a stop time stamp (crash) only expiration None / <= 0 is asserted, as documented', '6 C06'),
})
CHECKS.update({
 'C07': (MC, 'TLC model checking of Cron.tla (toy day: timetable, sleep / timeout / busy-loop latency, reload, clock jumps, reset) incl. two sharpness self-tests + real Cron / TimeDate / TimeSpan under a virtual wall clock with modelled latency, batch trace validation against CronTrace.tla (membership rules of Intervals.tla)',
         'Cron.tla models the cron main task with a latency bound, the reload triggered by reconfig and clock jumps; TLC checks OutputCorrect (away from boundaries, at the latest one hour after a jump) and JumpNeverKills, and must find the '
         'reload race (ReloadRecalcs = FALSE) and the empty-table reset failure. 1..4 real TimeDate / TimeSpan blocks in local and UTC mode (UTC+2 h virtual zone) with random times / dates / weekdays / spans (wrapping, microsecond '
         'endpoints, empty and unset items) run 3..50 virtual hours from random starts, year / month ends, Feb 28/29, or a few ms before a boundary, with reconfig events 1..9 ms before boundaries followed by a busy loop of 0..20 ms, '
         'forward jumps of 90 s .. 1 day and a backward jump; outputs are sampled 1 s before, 60 ms and 1 s after every boundary and at random moments; TLC evaluates for each sample Pred(cfg, wall) 30 ms before, at and 30 ms after '
         'the moment (time / date / weekday / span membership in TLA+) and demands the output whenever the three agree (except during the hour after a forward jump), and that no jump ends the simulation.',
         TRUSTED + '; every clock reading costs 2 us of virtual time (without it the service\'s retry loop never leaves a virtual instant); Eps = 30 ms covers the injected busy-loop latencies; calendar fields of the samples come from datetime; DST tables are outside the virtual clock', '6 C07'),
})
NA = {}
ALL = [f'C{n:02d}' for n in range(1, 21)]

def main():
    checks = []
    for pid in ALL:
        if pid not in CHECKS:
            continue
        cat, tech, text, note, ref = CHECKS[pid]
        checks.append({
            'property_id': pid,
            'quick_cmd': f'./bin/check {pid} quick',
            'thorough_cmd': f'./bin/check {pid} thorough',
            'evidence_file': f'/verif/evidence/{pid}.json',
            'replay_cmd_template': f'./bin/check {pid} --replay {{path}}',
            'engine': 'tlc-trace',
            'level_claimed': {'category': cat, 'text': text, 'design_ref': f'DESIGN.md section {ref}'},
            'level_note': note,
            'technique': tech,
        })
    na = [{'property_id': p, 'reason': NA.get(p, 'check not built yet in this session (work in progress; see DESIGN.md section 6 for the planned TLA+ model and binding)')}
          for p in ALL if p not in CHECKS]
    m = {
        'version': 1,
        'setup_cmd': './bin/setup',
        'hooks': {
            'guard': 'EDZED_VERIF',
            'enable': 'EDZED_VERIF=1 PYTHONPATH=/repo (pure Python, nothing to build; bin/check sets both)',
            'baseline_off_cmd': BASE,
            'source_commits': [],
            'add_only': True,
        },
        'engines': [{
            'name': 'tlc-trace', 'path': '/verif/bin/check',
            'serves_properties': [c['property_id'] for c in checks],
            'kind_free_text': 'TLA+ specifications in /verif/spec model-checked by TLC; stimuli (TLC-exported '
                              'behaviours, enumerators, seeded random) executed on the real edzed under a '
                              'virtual-time asyncio loop; recorded traces validated in batch by TLC against '
                              'trace specifications that reuse the model actions',
        }],
        'checks': checks,
        'not_applicable': na,
        'notes': 'See DESIGN.md. Known findings: /verif/known_findings.json. Seeded changes: /verif/seeded/.',
    }
    with open(os.path.join(VERIF, 'MANIFEST.json'), 'w') as f:
        json.dump(m, f, indent=1)
        f.write('\n')

if __name__ == '__main__':
    main()
