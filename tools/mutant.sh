#!/bin/sh
# usage: tools/mutant.sh <patch.diff> <ID> [tier]   -- run a check against a scratch copy of /repo
# with the patch applied (development aid; registered checks never depend on it)
set -e
PATCH=$(realpath "$1"); ID=$2; TIER=${3:-quick}
D=$(mktemp -d /tmp/edzmut-XXXXXX)
trap 'rm -rf "$D"' EXIT
cp -r /repo/edzed "$D/edzed"
(cd "$D" && patch -p1 -s < "$PATCH")
cd "$(dirname "$0")/.."
set +e
VERIF_REPO="$D" bin/check "$ID" "$TIER"
echo "exit=$?"
