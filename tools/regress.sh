#!/bin/sh
# usage: tools/regress.sh [out.md]  -- run every hand-made mutant and every seeded change against its
# property's quick check in a scratch copy of /repo/edzed; expect exit 1 (development aid, ~20 min)
cd "$(dirname "$0")/.." || exit 2
OUT=${1:-/tmp/edzverif-regress.md}
echo "| change | property | check exit | first signature |" > $OUT
echo "|---|---|---|---|" >> $OUT
run() { # patch id label
  P=$(realpath "$1"); D=$(mktemp -d /tmp/edzmut-XXXXXX)
  cp -r /repo/edzed "$D/edzed"
  if (cd "$D" && patch -p1 -s --fuzz=3 < "$P" >/dev/null 2>&1); then
    out=$(VERIF_REPO="$D" bin/check "$2" quick 2>&1); rc=$?
    sig=$(echo "$out" | grep -m1 "signature:" | sed 's/ *signature: //' | cut -c1-90)
  else rc="patch-failed"; sig=""; fi
  rm -rf "$D"
  echo "| $3 | $2 | $rc | $sig |" >> $OUT
  echo "$3 $2 rc=$rc $sig"
}
for f in mutants/*.diff; do
  b=$(basename $f .diff); id=$(echo $b | cut -c1-3 | tr c C)
  case $b in *revert_fix*) label="$b (reverts a fix)";; *) label="$b";; esac
  run $f $id "mutants/$label"
done
for d in seeded/C???; do
  [ -f $d/patch.diff ] || continue
  id=$(basename $d | cut -c1-3)
  run $d/patch.diff $id "seeded/$(basename $d)"
done
echo done
