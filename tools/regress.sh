#!/bin/sh
# usage: [JOBS=4] tools/regress.sh [out.md]  -- run every hand-made mutant and every seeded change against
# its property's quick check in a scratch copy of /repo/edzed; expect exit 1 (development aid)
cd "$(dirname "$0")/.." || exit 2
OUT=${1:-/tmp/edzverif-regress.md}
T=$(mktemp -d /tmp/edzreg-XXXXXX)
n=0
job() { n=$((n+1)); printf '%03d\t%s\t%s\t%s\n' $n "$1" "$2" "$3" >> $T/jobs; }
for f in mutants/*.diff; do
  b=$(basename $f .diff); id=$(echo $b | cut -c1-3 | tr c C)
  case $b in *revert_fix*) label="$b (reverts a fix)";; *) label="$b";; esac
  job $f $id "mutants/$label"
done
for d in seeded/C???; do
  [ -f $d/patch.diff ] || continue
  job $d/patch.diff $(basename $d | cut -c1-3) "seeded/$(basename $d)"
done
cat > $T/run.sh <<'EOS'
#!/bin/sh
# args: tmpdir line
T=$1; IFS='	' read -r N PATCH ID LABEL <<EOL
$2
EOL
P=$(realpath "$PATCH"); D=$(mktemp -d /tmp/edzmut-XXXXXX)
cp -r /repo/edzed "$D/edzed"
if (cd "$D" && patch -p1 -s --fuzz=3 < "$P" >/dev/null 2>&1); then
  out=$(VERIF_REPO="$D" bin/check "$ID" quick 2>&1); rc=$?
  sig=$(echo "$out" | grep -m1 "signature:" | sed 's/ *signature: //' | cut -c1-90)
else rc="patch-failed"; sig=""; fi
rm -rf "$D"
echo "| $LABEL | $ID | $rc | $sig |" > $T/$N.row
echo "$LABEL $ID rc=$rc $sig"
EOS
chmod +x $T/run.sh
tr '\n' '\0' < $T/jobs | xargs -0 -n1 -P ${JOBS:-4} $T/run.sh $T
{ echo "| change | property | check exit | first signature |"; echo "|---|---|---|---|"; cat $T/*.row; } > $OUT
rm -rf $T
echo done
