#!/usr/bin/env python3
"""Keep a confirmed seeded change: tools/seedkeep.py <ID> <variant> '<breaks>' '<needs>' '<detected>' [missed-note]"""
import json, os, shutil, sys
pid, v, breaks, needs, detected = sys.argv[1:6]
missed = sys.argv[6] if len(sys.argv) > 6 else ''
ROOT = os.environ.get('SEED_ROOT', '/tmp/seed6')
src = f'{ROOT}/{pid}out/{v}'
dst = f'/verif/seeded/{pid}{os.environ.get("SEED_SUFFIX", v)}'
os.makedirs(dst, exist_ok=True)
for f in ('patch.diff', 'demo.py', 'notes.md'):
    shutil.copy(os.path.join(src, f), os.path.join(dst, f))
log = open(os.path.join(src, 'confirm.log')).read().splitlines()
meta = {
    'property': pid, 'variant': v, 'origin': 'independent sub-agent given only the property text and a scratch worktree' + (f' (round {os.environ.get("SEED_ROUND", 3)}: asked for changes different from the earlier rounds)' if os.environ.get('SEED_SUFFIX') else ''),
    'breaks': breaks, 'needs_to_manifest': needs,
    'confirmed_by_me': {
        'commands': [f'cd {ROOT}/{pid}w && git apply patch.diff',
                     '/venv/bin/python demo.py (clean tree -> exit 0, patched -> exit 1)',
                     '/venv/bin/python -m pytest -q -p no:cacheprovider --timeout=900 --continue-on-collection-errors (patched)',
                     f'VERIF_REPO={ROOT}/{pid}w bin/check {pid} quick (patched)'],
        'log': log},
    'detected_by': detected,
}
if missed:
    meta['initially_missed'] = missed
json.dump(meta, open(os.path.join(dst, 'meta.json'), 'w'), indent=1)
print(dst)
