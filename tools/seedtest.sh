#!/bin/sh
# usage: tools/seedtest.sh <ID> <variant> [tier]  -- confirm a seeded change (from ${SEED_ROOT:-/tmp/seed6}/<ID>out/<variant>)
# in the scratch worktree ${SEED_ROOT:-/tmp/seed6}/<ID>w and run the property's check against it.
ID=$1; V=$2; TIER=${3:-quick}
W=${SEED_ROOT:-/tmp/seed6}/${ID}w; O=${SEED_ROOT:-/tmp/seed6}/${ID}out/$V
LOG=${SEED_ROOT:-/tmp/seed6}/${ID}out/$V/confirm.log
: > $LOG
git -C $W checkout -q --detach main 2>>$LOG; git -C $W checkout -q -- . 
cd $W || exit 2
/venv/bin/python $O/demo.py >/dev/null 2>&1; echo "demo_clean_exit=$?" >> $LOG
git apply $O/patch.diff || { echo "apply failed" >> $LOG; exit 2; }
/venv/bin/python $O/demo.py >/dev/null 2>&1; echo "demo_patched_exit=$?" >> $LOG
/venv/bin/python -m pytest -q -p no:cacheprovider --timeout=900 --continue-on-collection-errors 2>&1 | tail -1 >> $LOG
cd /verif
VERIF_REPO=$W VERIF_NOEVIDENCE=1 bin/check $ID $TIER > $O/check.out 2>&1; echo "check_exit=$?" >> $LOG
grep -m3 -E "signature|VIOLATION" $O/check.out >> $LOG
git -C $W checkout -q -- .
cat $LOG
