#!/bin/sh
# validate MANIFEST.json and all evidence files against the schemas
python3-vt - <<'PY'
import json, jsonschema, glob, sys
ok = True
try:
    jsonschema.validate(json.load(open('/verif/MANIFEST.json')), json.load(open('/root/.vp/MANIFEST.schema.json')))
except Exception as e:
    print('MANIFEST invalid:', e); ok = False
es = json.load(open('/root/.vp/EVIDENCE.schema.json'))
for f in sorted(glob.glob('/verif/evidence/*.json')):
    try:
        jsonschema.validate(json.load(open(f)), es)
    except Exception as e:
        print(f, 'invalid:', str(e)[:300]); ok = False
print('validation', 'ok' if ok else 'FAILED')
sys.exit(0 if ok else 1)
PY
