-------------------------------- MODULE Sim --------------------------------
(* The circuit simulator Circuit._simulate (edzed/simulator.py), properties C01 and C10. *)
(*                                                                                       *)
(* blocks: sequence of records [s (is sequential), k, ins, p1, p2, fb]; fb = sequence of *)
(* sequential blocks that receive the block's new value through an on_output 'put' event *)
(* (CBlock -> SBlock feedback, handled synchronously inside the evaluation).             *)
(* Variables: out (outputs), evalSet (combinational blocks to be evaluated), queue       *)
(* (changed sequential blocks not yet seen by the simulator), cnt (evaluations in this   *)
(* burst), pc: "run" | "idle" | "unstable".                                              *)
(* SelectMin = TRUE is the code's select_blk heuristic (fewest inputs inside evalSet);   *)
(* FALSE allows any pending block (the monitor used for trace validation).               *)
EXTENDS Integers, Sequences, FiniteSets

CONSTANTS SelectMin

VARIABLES blocks, out, evalSet, queue, cnt, pc

CB == INSTANCE CBlocks
UNDEF == CB!UNDEF
vars == <<blocks, out, evalSet, queue, cnt, pc>>

B == DOMAIN blocks
S == {b \in B : blocks[b].s}
C == B \ S
Limit == 3 * Len(blocks)                       \* _MAX_EVALS_PER_BLOCK * number of blocks

InBlocks(c) == {blocks[c].ins[i].x : i \in {j \in DOMAIN blocks[c].ins : ~blocks[c].ins[j].c}}
OConn(b) == {c \in C : b \in InBlocks(c)}
OConnAll(q) == UNION {OConn(q[i]) : i \in DOMAIN q}
F(c, o) == CB!F(blocks[c], o, o[c])
(* an output equals its function of the inputs (an equal result leaves the old object) *)
Consistent(o) == \A c \in C : CB!Eq(o[c], F(c, o))

(* synchronous delivery of value v to the sequential blocks ss (in order): an Input      *)
(* stores the value and, if it changed, enqueues itself                                  *)
RECURSIVE Feed(_, _, _, _, _)
Feed(ss, i, v, o, q) ==
    IF i > Len(ss) THEN [o |-> o, q |-> q]
    ELSE IF CB!Eq(o[ss[i]], v) THEN Feed(ss, i + 1, v, o, q)
    ELSE Feed(ss, i + 1, v, [o EXCEPT ![ss[i]] = v], Append(q, ss[i]))

(* an external event changes a sequential block while the simulator task is suspended *)
Put(s, v) == /\ pc = "idle" /\ s \in S
             /\ out' = IF CB!Eq(out[s], v) THEN out ELSE [out EXCEPT ![s] = v]
             /\ queue' = IF CB!Eq(out[s], v) THEN queue ELSE Append(queue, s)
             /\ UNCHANGED <<blocks, evalSet, cnt, pc>>

Wake == /\ pc = "idle" /\ queue # <<>>
        /\ pc' = "run" /\ cnt' = 0
        /\ UNCHANGED <<blocks, out, evalSet, queue>>

Drain == /\ pc = "run" /\ queue # <<>>
         /\ evalSet' = evalSet \cup OConnAll(queue) /\ queue' = <<>>
         /\ UNCHANGED <<blocks, out, cnt, pc>>

Idep(c, es) == Cardinality(InBlocks(c) \cap es)
Selectable(c, es) == c \in es /\ (SelectMin /\ Cardinality(es) > 1 => \A d \in es : Idep(c, es) <= Idep(d, es))

(* evaluate one pending block; its output events are delivered before the next step *)
EvalOf(c) == LET v == F(c, out)
                 changed == ~CB!Eq(v, out[c])           \* an equal result: unchanged, the old object stays
                 o1 == IF changed THEN [out EXCEPT ![c] = v] ELSE out
                 fed == IF changed THEN Feed(blocks[c].fb, 1, v, o1, queue) ELSE [o |-> o1, q |-> queue]
             IN  /\ out' = fed.o /\ queue' = fed.q
                 /\ evalSet' = (evalSet \ {c}) \cup (IF changed THEN OConn(c) ELSE {})
Eval == /\ pc = "run" /\ queue = <<>> /\ evalSet # {}
        /\ IF cnt + 1 > Limit
           THEN pc' = "unstable" /\ UNCHANGED <<blocks, out, evalSet, queue, cnt>>
           ELSE /\ \E c \in evalSet : Selectable(c, evalSet) /\ EvalOf(c)
                /\ cnt' = cnt + 1 /\ UNCHANGED <<blocks, pc>>

GoIdle == /\ pc = "run" /\ queue = <<>> /\ evalSet = {}
          /\ pc' = "idle" /\ UNCHANGED <<blocks, out, evalSet, queue, cnt>>

Next == Eval \/ Drain \/ GoIdle \/ Wake \/ \E s \in S, v \in {0, 1} : Put(s, v)

(* ---- properties ---- *)
IdleConsistent == (pc = "idle" /\ queue = <<>>) => Consistent(out)              \* C01, C10
BoundedWork    == cnt <= Limit                                                   \* C10
(* the inductive reason: a block whose inputs changed since its last evaluation is       *)
(* pending, or an upstream sequential block is still in the queue                        *)
EvalSetSound   == pc \in {"run", "idle"} =>
                     \A c \in C : ~CB!Eq(out[c], F(c, out)) => (c \in evalSet \/ c \in OConnAll(queue))
=============================================================================
