------------------------------ MODULE FsmTimed ------------------------------
(* Timed states of edzed.FSM (edzed/fsm.py: _ctx_event, _start_timer, _set_timer,        *)
(* _stop_timer, stop, get_state) and of the derived blocks Timer and InputExp. C04.      *)
(*                                                                                       *)
(* Time is counted in ticks.  States 1..cfg.n, events 1..cfg.m.                          *)
(* cfg.trans[e][s], cfg.any[e] : target state, 0 = None target, -1 = no such rule        *)
(* cfg.cf[e][s]  : 1 = the cond_EVENT callback returns false in state s                  *)
(* cfg.tev[s]    : 0 = s is not timed, 1..m = timed event, 100+x = Goto(state x)         *)
(* cfg.cdur[s]   : class default duration of the timed state (TIMERS table)              *)
(* cfg.idur[s]   : instance duration t_STATE                                             *)
(* durations     : ticks (<= 0 means immediately) or NONEV / INFV / ABSENTV              *)
(* cfg.init      : the initial state (initdef)                                           *)
(* cfg.echain[s] : 0, or the event that the entry action of s sends to its own FSM when *)
(*                 the causing event's data says so (chained transition: if accepted,   *)
(*                 s is only an intermediate state and its timer is NOT started)         *)
(* cfg.xbad[s]   : 1 = an on_exit event of s fails in a non-fatal way (unknown event     *)
(*                 type at its destination): event() raises, nothing has changed         *)
(*                                                                                       *)
(* The first part is the *functional* definition used by the monitor (trace spec):       *)
(* Handle() gives state and pending timer after one event() call.  The second part is    *)
(* implementation shaped: the loop's set of scheduled handles and the FSM's              *)
(* _active_timer reference, manipulated the way the code does it, with two named         *)
(* deviations: CancelOnExit = FALSE (the timer is not cancelled when the state is left)  *)
(* and FiredTimerCleared = FALSE (the reference to a fired handle is kept, so that a     *)
(* rejected timed event leaves a timer that get_state() reports with a past expiry;      *)
(* DESIGN.md section 7-8).                                                               *)
EXTENDS Integers, Sequences, FiniteSets

NONEV == 9001        \* duration explicitly None / not set
INFV == 9002         \* INF_TIME
ABSENTV == 9003      \* argument or data item not given
Special == {NONEV, INFV, ABSENTV}

NoTimer == [due |-> 0 - 1, ev |-> 0]

IsGoto(ev) == ev >= 100
Known(cfg, e) == e \in 1..cfg.m /\ (cfg.any[e] # 0 - 1 \/ \E s \in 1..cfg.n : cfg.trans[e][s] # 0 - 1)
Target(cfg, ev, s) == IF IsGoto(ev) THEN ev - 100
                      ELSE IF cfg.trans[ev][s] # 0 - 1 THEN cfg.trans[ev][s] ELSE cfg.any[ev]
(* accepted: a transition exists and (on an initialised FSM) the condition holds *)
Accepted(cfg, ev, s, inited) ==
    /\ Target(cfg, ev, s) > 0
    /\ (IsGoto(ev) \/ ~inited \/ cfg.cf[ev][s] = 0)

(* event item 'duration' > instance t_STATE > class default; None counts as not given *)
EffDur(cfg, s, d) == IF d \notin {ABSENTV, NONEV} THEN d
                     ELSE IF cfg.idur[s] \notin {ABSENTV, NONEV} THEN cfg.idur[s]
                     ELSE cfg.cdur[s]

Res(ret, st, tm) == [ret |-> ret, st |-> st, tm |-> tm]

(* enter state s because of an event whose data item 'duration' is d; k entry actions   *)
(* were already run while handling the current event                                     *)
RECURSIVE Enter(_, _, _, _, _, _, _)
Enter(cfg, s, d, now, inited, k, cflag) ==
    IF k >= 3 * cfg.n THEN Res("error", s, NoTimer)                   \* endless chain
    ELSE IF cflag /\ cfg.echain[s] # 0 /\ Accepted(cfg, cfg.echain[s], s, inited)
    THEN Enter(cfg, Target(cfg, cfg.echain[s], s), ABSENTV, now, inited, k + 1, FALSE)   \* no timer for s
    ELSE IF cfg.tev[s] = 0 THEN Res("true", s, NoTimer)
    ELSE LET dur == EffDur(cfg, s, d) IN
         IF dur \in {NONEV, ABSENTV} THEN Res("error", s, NoTimer)    \* no duration at all
         ELSE IF dur = INFV THEN Res("true", s, NoTimer)              \* never
         ELSE IF dur <= 0                                             \* immediately
              THEN IF ~IsGoto(cfg.tev[s]) /\ ~Known(cfg, cfg.tev[s]) THEN Res("error", s, NoTimer)
                   ELSE IF Accepted(cfg, cfg.tev[s], s, inited)
                   THEN Enter(cfg, Target(cfg, cfg.tev[s], s), ABSENTV, now, inited, k + 1, FALSE)
                   ELSE Res("true", s, NoTimer)          \* rejected: in s without a timer
         ELSE Res("true", s, [due |-> now + dur, ev |-> cfg.tev[s]])

(* start from a saved state (s, absolute expiry or none): no entry action, no chain, the   *)
(* timer expires at the same absolute time as before                                      *)
Restore(cfg, s, due) ==
    Res("true", s, IF cfg.tev[s] = 0 \/ due < 0 THEN NoTimer ELSE [due |-> due, ev |-> cfg.tev[s]])

(* one event() call; tm is the pending timer *)
HandleC(cfg, st, tm, ev, d, now, inited, cflag) ==
    IF ~IsGoto(ev) /\ ~Known(cfg, ev) THEN Res("unknown", st, tm)
    ELSE IF ~Accepted(cfg, ev, st, inited) THEN Res("false", st, tm)     \* nothing changes
    ELSE IF inited /\ cfg.xbad[st] = 1 THEN Res("unknown", st, tm)      \* exit failed: still in st, timer kept
    ELSE Enter(cfg, Target(cfg, ev, st), d, now, inited, 0, cflag)     \* old timer cancelled

Handle(cfg, st, tm, ev, d, now, inited) == HandleC(cfg, st, tm, ev, d, now, inited, FALSE)

(* ... and the output events of the restored state come back to the FSM as event fb (0 = *)
(* no feedback): _restore_state() is not an event(), nothing refuses that event; it is   *)
(* handled as any other event of the restored state - the restored timer is the pending  *)
(* one and is cancelled if the state is left.  A refused / failing feedback event is the *)
(* sender's business (state unchanged); only a fatal result makes the start fail         *)
RestoreFb(cfg, s, due, fb, now) ==
    LET r == Restore(cfg, s, due) IN
    IF fb = 0 THEN r
    ELSE LET h == HandleC(cfg, r.st, r.tm, fb, ABSENTV, now, TRUE, FALSE)
         IN  IF h.ret = "error" THEN h ELSE Res("true", h.st, h.tm)

(* the timer tm expires: its event is delivered without data; whatever happens, that    *)
(* timer is gone                                                                         *)
Expire(cfg, st, tm, now) == Handle(cfg, st, NoTimer, tm.ev, ABSENTV, now, TRUE)

(* ------------------------ implementation shaped part ------------------------ *)
CONSTANTS CancelOnExit, FiredTimerCleared,
          RestoreTimerFirst    \* TRUE = the code: _restore_state() starts the timer BEFORE it assigns the
                               \* output (and thereby sends the output events); FALSE = the deviation
                               \* "timer started at the very end"

(* world = [st, handles (scheduled, not cancelled: set of [id, due, ev]), active (id of *)
(* the handle _active_timer refers to, 0 = None; a fired handle may still be referred   *)
(* to), nid (next handle id), ret]                                                       *)
World(st, hs, act, nid, ret) == [st |-> st, hs |-> hs, act |-> act, nid |-> nid, ret |-> ret]

StopTimer(w) == World(w.st, {h \in w.hs : h.id # w.act}, 0, w.nid, w.ret)

RECURSIVE IEnter(_, _, _, _, _, _, _, _)
IEnter(cfg, w, s, d, now, inited, k, cflag) ==
    LET w1 == World(s, w.hs, w.act, w.nid, "true") IN
    IF k >= 3 * cfg.n THEN World(s, w.hs, w.act, w.nid, "error")
    ELSE IF cflag /\ cfg.echain[s] # 0 /\ Accepted(cfg, cfg.echain[s], s, inited)
    THEN IEnter(cfg, w1, Target(cfg, cfg.echain[s], s), ABSENTV, now, inited, k + 1, FALSE)
    ELSE IF cfg.tev[s] = 0 THEN w1
    ELSE LET dur == EffDur(cfg, s, d) IN
         IF dur \in {NONEV, ABSENTV} THEN World(s, w.hs, w.act, w.nid, "error")
         ELSE IF dur = INFV THEN w1
         ELSE IF dur <= 0
              THEN IF ~IsGoto(cfg.tev[s]) /\ ~Known(cfg, cfg.tev[s]) THEN World(s, w.hs, w.act, w.nid, "error")
                   ELSE IF Accepted(cfg, cfg.tev[s], s, inited)
                   THEN IEnter(cfg, w1, Target(cfg, cfg.tev[s], s), ABSENTV, now, inited, k + 1, FALSE)
                   ELSE w1
         ELSE World(s, w.hs \cup {[id |-> w.nid, due |-> now + dur, ev |-> cfg.tev[s]]},
                    w.nid, w.nid + 1, "true")

IHandleC(cfg, w, ev, d, now, inited, cflag) ==
    IF ~IsGoto(ev) /\ ~Known(cfg, ev) THEN World(w.st, w.hs, w.act, w.nid, "unknown")
    ELSE IF ~Accepted(cfg, ev, w.st, inited) THEN World(w.st, w.hs, w.act, w.nid, "false")
    ELSE IF inited /\ cfg.xbad[w.st] = 1 THEN World(w.st, w.hs, w.act, w.nid, "unknown")
    ELSE IEnter(cfg, IF CancelOnExit THEN StopTimer(w) ELSE w, Target(cfg, ev, w.st), d, now, inited, 0, cflag)

IHandle(cfg, w, ev, d, now, inited) == IHandleC(cfg, w, ev, d, now, inited, FALSE)

(* _restore_state() with the output events coming back as event fb *)
IRestore(cfg, w, s, due, fb, now) ==
    LET timed == cfg.tev[s] # 0 /\ due >= 0
        WithTimer(x) == IF timed THEN World(x.st, x.hs \cup {[id |-> x.nid, due |-> due, ev |-> cfg.tev[s]]},
                                            x.nid, x.nid + 1, x.ret)
                        ELSE x
        Fb(x) == IF fb = 0 THEN x
                 ELSE LET y == IHandleC(cfg, x, fb, ABSENTV, now, TRUE, FALSE)
                      IN  IF y.ret = "error" THEN y ELSE World(y.st, y.hs, y.act, y.nid, "true")
        w0 == World(s, w.hs, w.act, w.nid, "true")
    IN  IF RestoreTimerFirst THEN Fb(WithTimer(w0))
        ELSE LET y == Fb(w0) IN IF y.ret = "error" THEN y ELSE WithTimer(y)

(* the loop runs handle h (removing it from its heap) *)
IFire(cfg, w, h, now) ==
    LET w0 == World(w.st, w.hs \ {h}, IF FiredTimerCleared /\ w.act = h.id THEN 0 ELSE w.act, w.nid, w.ret)
    IN  IHandle(cfg, w0, h.ev, ABSENTV, now, TRUE)

(* what get_state() reports as the timer: the handle _active_timer refers to *)
Reported(w, fired) == IF w.act = 0 THEN NoTimer
                      ELSE IF \E h \in w.hs : h.id = w.act
                           THEN LET h == CHOOSE h \in w.hs : h.id = w.act IN [due |-> h.due, ev |-> h.ev]
                           ELSE IF \E h \in fired : h.id = w.act
                                THEN LET h == CHOOSE h \in fired : h.id = w.act IN [due |-> h.due, ev |-> h.ev]
                                ELSE NoTimer
=============================================================================
