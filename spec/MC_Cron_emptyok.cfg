SPECIFICATION Spec
CONSTANTS ReloadRecalcs = TRUE
 ResetSurvivesEmpty = TRUE
 WithY = FALSE
INVARIANT OutputCorrect
INVARIANT JumpNeverKills
CHECK_DEADLOCK FALSE
