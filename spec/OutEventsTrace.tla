-------------------------- MODULE OutEventsTrace --------------------------
(* Trace specification for output events (C02).  hdr: kind ("s" | "c"), cls (equality    *)
(* class per object id), on_output / on_every lists.  Each line is one assignment with   *)
(* the deliveries observed between call and return (sequential sender) or during the     *)
(* simulator's evaluation (combinational sender), and the sender's stored output object. *)
EXTENDS TraceLib
SRC == 800
TRIG == 810
VARIABLES cur, log, tid, l
O == INSTANCE OutEvents
vars == <<cur, log>>
H(t) == Traces[t].hdr
Ev(t) == Traces[t].ev
TraceInit == tid \in 1..NTraces /\ l = 1 /\ cur = O!UNDEF /\ log = <<>>
SameDeliv(a, b) == /\ Len(a) = Len(b)
                   /\ \A i \in 1..Len(a) : /\ a[i].dest = b[i].dest /\ a[i].etype = b[i].etype
                                           /\ O!F!Same(a[i].data, b[i].data)
Step == /\ l <= Len(Ev(tid))
        /\ LET e == Ev(tid)[l] IN
             /\ e.ev = "assign"
             /\ IF H(tid).kind = "s"
                THEN O!AssignS(H(tid).cls, H(tid).on_output, H(tid).on_every, e.v)
                ELSE O!AssignC(H(tid).cls, H(tid).on_output, e.v)
             /\ cur' = e.out                    \* identity of the stored output object
             /\ SameDeliv(log', e.deliv)        \* exactly these deliveries, in this order
             /\ e.late = 0                      \* nothing delivered after the assignment returned
        /\ l' = l + 1 /\ UNCHANGED tid
TraceSpec == TraceInit /\ [][Step]_<<vars, tid, l>>
ASSUME InitRegs
Book == Reach(tid, l, vars)
LenOf(t) == Len(Ev(t))
Accepted == AcceptedAll(LenOf)
=============================================================================
