-------------------------- MODULE DurationsTrace --------------------------
(* Reference evaluation for durations (C19): every recorded case of convert(),           *)
(* time_period(), timestr() and timestr_approx() on the real library is compared with    *)
(* the definitions of module Durations.  The harness renders abstract durations to       *)
(* strings and parses the produced strings into components (the lexical side); the       *)
(* arithmetic, validity, decomposition, rounding and rounding-step rules are TLA+.       *)
EXTENDS TraceLib
VARIABLES ok, tid, l
D == INSTANCE Durations
vars == <<ok>>
Ev(t) == Traces[t].ev
TraceInit == tid \in 1..NTraces /\ l = 1 /\ ok = TRUE
(* convert(render(x)) : error iff ~Valid(x), else exactly Value(x) *)
Conv(e) == /\ e.err = ~D!Valid(e.x)
           /\ (D!Valid(e.x) => (e.exact /\ [sec |-> e.sec, ms |-> e.ms] = D!Value(e.x)))
(* time_period(number) *)
Period(e) == /\ e.isfloat
             /\ e.r = (IF e.neg THEN [sec |-> 0, us |-> 0] ELSE e.t)
(* timestr(t, prec): decomposition, parts shown, decimals, and convert() as its inverse *)
Tstr(e) == D!IsTie(e.t, e.prec) \/
    LET r == IF e.isfloat THEN D!RoundTo(e.t, e.prec) ELSE e.t
        c == D!Decompose(r.sec)
    IN  /\ ~e.err
        /\ e.c = c /\ e.shown = D!ShownParts(c)
        /\ e.frac = (IF e.isfloat THEN r.us ELSE 0) /\ e.ndec = (IF e.isfloat THEN e.prec ELSE 0)
        /\ ~e.back.err /\ e.back.exact /\ [sec |-> e.back.sec, us |-> e.back.us] = r
(* timestr_approx(t): closer than the documented step; decimals / omitted seconds *)
Approx(e) == /\ ~e.err
             /\ D!Closer(e.t, e.v, D!ApproxStep(e.t, e.isfloat))
             /\ e.has_s = D!ApproxShowsSeconds(e.v)
             /\ (e.has_s => e.ndec = (IF e.isfloat /\ e.v.sec < 10 * D!HOUR THEN D!ApproxDecimals(e.v) ELSE 0))
Step == /\ l <= Len(Ev(tid))
        /\ LET e == Ev(tid)[l] IN
             \/ e.ev = "conv" /\ Conv(e)
             \/ e.ev = "period" /\ Period(e)
             \/ e.ev = "tstr" /\ Tstr(e)
             \/ e.ev = "approx" /\ Approx(e)
             \/ e.ev = "bad" /\ e.err             \* documented-invalid input must raise
             \/ e.ev = "none" /\ e.isnone         \* None stays None
        /\ l' = l + 1 /\ UNCHANGED <<tid, ok>>
TraceSpec == TraceInit /\ [][Step]_<<vars, tid, l>>
ASSUME InitRegs
Book == Reach(tid, l, vars)
LenOf(t) == Len(Ev(t))
Accepted == AcceptedAll(LenOf)
=============================================================================
