---------------------------- MODULE MC_Filters ----------------------------
(* Model checking of the filter definitions: the Edge truth table against its            *)
(* documentation clauses, the chain law of DataEdit, REJECT short-circuit, and Delta as  *)
(* a little state machine over all numeric sequences on -3..3 with delta in 0..3.        *)
EXTENDS Integers, Sequences, FiniteSets, TLC
VARIABLES last, delta, lastPassed, v, passed, pipeRes
F == INSTANCE Filters
vars == <<last, delta, lastPassed, v, passed, pipeRes>>

Vals  == {F!UNDEF, 0 - 1001, 0, 1, 5}           \* UNDEF, None, 0, True, 5
Flags == [rise : BOOLEAN, fall : BOOLEAN, urise : {0 - 1, 0, 1}, ufall : BOOLEAN]
(* documentation: "rise: False -> True", "fall: True -> False", "u_rise: UNDEF -> True,  *)
(* default = same as rise", "u_fall: UNDEF -> False"; everything else is filtered out    *)
DocEdge(f, p, x) ==
    LET ur == IF f.urise = 0 - 1 THEN f.rise ELSE f.urise = 1 IN
    \/ p # F!UNDEF /\ ~F!Truthy(p) /\ F!Truthy(x) /\ f.rise
    \/ p # F!UNDEF /\ F!Truthy(p) /\ ~F!Truthy(x) /\ f.fall
    \/ p = F!UNDEF /\ F!Truthy(x) /\ ur
    \/ p = F!UNDEF /\ ~F!Truthy(x) /\ f.ufall
ASSUME EdgeTable == \A f \in Flags, p \in Vals, x \in Vals \ {F!UNDEF} :
                        F!EdgePass(f, p, x) = DocEdge(f, p, x)

Keys == {"a", "b", "c"}
Dicts == UNION {[S -> {1, 2}] : S \in SUBSET Keys}
NoCtl == <<[out |-> 7, init |-> TRUE]>>
Ops == {[k |-> "add", kv |-> <<<<"a", 9>>>>], [k |-> "add", kv |-> <<<<"b", 8>>, <<"c", 7>>>>],
        [k |-> "setdefault", kv |-> <<<<"a", 6>>, <<"b", 5>>>>],
        [k |-> "copy", src |-> "a", dst |-> "b"], [k |-> "rename", src |-> "b", dst |-> "c"],
        [k |-> "delete", keys |-> <<"a", "c">>], [k |-> "permit", keys |-> <<"a", "b">>],
        [k |-> "modify", key |-> "a", f |-> "inc"], [k |-> "modify", key |-> "b", f |-> "del"],
        [k |-> "modify", key |-> "c", f |-> "rej"], [k |-> "add_output", key |-> "c", blk |-> 1]}
Chains2 == {<<x, y>> : x \in Ops, y \in Ops}
(* chain law: a chain is its operations applied left to right, stopping at the first     *)
(* rejection or error                                                                    *)
Chains1 == {<<x>> : x \in Ops}
ASSUME ChainLaw == \A c1 \in Chains2, c2 \in Chains1, d \in Dicts :
    LET whole == F!Chain(c1 \o c2, d, NoCtl, 1)
        first == F!Chain(c1, d, NoCtl, 1)
    IN  IF first.st = "ok" THEN whole = F!Chain(c2, first.d, NoCtl, 1) ELSE whole = first
(* setdefault never overwrites, permit keeps only listed keys, delete ignores missing    *)
ASSUME OpLaws == \A d \in Dicts :
    /\ \A k \in DOMAIN d : F!ApplyOp([k |-> "setdefault", kv |-> <<<<k, 99>>>>], d, NoCtl).d[k] = d[k]
    /\ DOMAIN F!ApplyOp([k |-> "permit", keys |-> <<"a">>], d, NoCtl).d \subseteq {"a"}
    /\ F!ApplyOp([k |-> "delete", keys |-> <<"a", "zz">>], d, NoCtl).st = "ok"
(* a pipeline stops at the first false result; later filters (here: an edit that would   *)
(* raise) are not run and the data seen so far is irrelevant                             *)
ASSUME ShortCircuit == \A d \in Dicts :
    F!Pipe(<<[k |-> "const", r |-> "false"], [k |-> "edit", ops |-> <<[k |-> "copy", src |-> "zz", dst |-> "a"]>>]>>,
           d, <<F!UNDEF, F!UNDEF>>, NoCtl, 1).st = "rej"

(* Delta state machine *)
Init == /\ last = F!UNDEF /\ delta \in 0..3 /\ lastPassed = F!UNDEF /\ v = 0 /\ passed = FALSE
        /\ pipeRes = "none"
Feed == \E x \in (0 - 3)..3 :
    LET r == F!ApplyFilter([k |-> "delta", d |-> delta], 1, [value |-> x], <<last>>, NoCtl) IN
    /\ v' = x /\ passed' = (r.st = "ok") /\ last' = r.mem[1]
    /\ lastPassed' = IF r.st = "ok" THEN x ELSE lastPassed
    /\ pipeRes' = r.st /\ UNCHANGED delta
Next == Feed
Spec == Init /\ [][Next]_vars
(* Delta remembers the last PASSED value and passes iff the distance is at least delta *)
DeltaMemory == last = lastPassed
DeltaRule == [][ passed' = (last = F!UNDEF \/ F!Abs(last - v') >= delta) ]_vars
=============================================================================
