SPECIFICATION Spec
CONSTANTS N = 2
 Edges = TRUE
 EarlyInit = FALSE
INVARIANT OrderIndependent
INVARIANT AtMostOnce
INVARIANT SourceOrder
INVARIANT StepsBeforeEvent
INVARIANT AsyncOnlyIfNeeded
INVARIANT AllStepsDone
CHECK_DEADLOCK FALSE
