SPECIFICATION Spec
INVARIANT OutputAlwaysAccepted
INVARIANT RefusedHasNoOutput
PROPERTY RejectedChangesNothing
PROPERTY CfgFrozen
CHECK_DEADLOCK FALSE
