SPECIFICATION Spec
CONSTANTS SecondPass = FALSE
INVARIANT Biconditional
INVARIANT MatchesDeclaration
INVARIANT InverterUnique
PROPERTY ScriptFrozen
CHECK_DEADLOCK FALSE
