SPECIFICATION Spec
CONSTANTS MaxNow = 9
 MaxLevel = 16
 MinStop = 5
CONSTRAINT Export
CHECK_DEADLOCK FALSE
