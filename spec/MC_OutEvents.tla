--------------------------- MODULE MC_OutEvents ---------------------------
(* All assignment histories up to length 5 over ids 1..5 (classes 1,1,2,3,0: two equal-    *)
(* but-not-identical objects), unfiltered on_output and on_every_output observers.       *)
EXTENDS Integers, Sequences, TLC
SRC == 800
TRIG == 810
VARIABLES cur, log, kind, histOut, histEvery, n
O == INSTANCE OutEvents
UNDEF == O!UNDEF
Cls == <<1, 1, 2, 3, 0>>                  \* id 5: a NaN (class 0: equal to nothing)
OnOut   == <<[dest |-> 1, etype |-> "a", filters |-> <<>>], [dest |-> 2, etype |-> "b", filters |-> <<[k |-> "nfu"]>>]>>
OnEvery == <<[dest |-> 3, etype |-> "c", filters |-> <<>>]>>
vars == <<cur, log, kind, histOut, histEvery, n>>
Init == cur = UNDEF /\ log = <<>> /\ kind \in {"s", "c"} /\ histOut = <<>> /\ histEvery = <<>> /\ n = 0
Sel(s, d) == SelectSeq(s, LAMBDA x : x.dest = d)
Assign == \E v \in 1..5 :
    /\ n < 5 /\ n' = n + 1
    /\ IF kind = "s" THEN O!AssignS(Cls, OnOut, OnEvery, v) ELSE O!AssignC(Cls, OnOut, v)
    /\ histOut' = histOut \o Sel(log', 1)
    /\ histEvery' = histEvery \o Sel(log', 3)
    /\ UNCHANGED kind
Spec == Init /\ [][Assign]_vars
(* on_output reproduces the output history: chained previous/value, first previous UNDEF,*)
(* consecutive values unequal                                                            *)
Chained == /\ (Len(histOut) > 0 => histOut[1].data["previous"] = UNDEF)
           /\ \A i \in 1..(Len(histOut) - 1) : histOut[i + 1].data["previous"] = histOut[i].data["value"]
           /\ \A i \in 1..Len(histOut) : ~O!Equal(Cls, histOut[i].data["previous"], histOut[i].data["value"])
           /\ (Len(histOut) > 0 => histOut[Len(histOut)].data["value"] = cur)
(* on_every_output of a sequential block sees every assignment *)
EveryAssignmentSeen == kind = "s" => Len(histEvery) = n
(* on_output precedes on_every_output within one assignment, each event at most once *)
Order == \A i, j \in 1..Len(log) : (i < j) => log[i].dest < log[j].dest
(* not_from_undef drops only the change from UNDEF *)
NfuOnlyFirst == \A i \in 1..Len(log) : log[i].dest = 2 => log[i].data["previous"] # UNDEF
=============================================================================
