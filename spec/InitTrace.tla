----------------------------- MODULE InitTrace -----------------------------
(* Trace specification for the start-up initialisation (C05).                             *)
(* hdr: cfg (block configurations as in Init.tla), order (creation order), cbfail (the    *)
(* first evaluation of a combinational block fails, or some other block cannot be         *)
(* initialised), first (0 or the block that receives an external event right after the    *)
(* blocks were started).                                                                  *)
(* lines: call(b, r) - routine r of block b was entered (restore / async / regular /      *)
(*        initdef / event);  out(b, v) - block b was assigned an output with source tag v;*)
(*        wait(ok, t, outs, ready, cb, err) - wait_init() returned (ok) or raised.        *)
EXTENDS TraceLib
EarlyInit == TRUE
VARIABLES called, outv, done, tid, l
I == INSTANCE Init
vars == <<called, outv, done>>
H(t) == Traces[t].hdr
Ev(t) == Traces[t].ev
C == H(tid).cfg
TraceInit == /\ tid \in 1..NTraces /\ l = 1 /\ called = {}
             /\ outv = [b \in DOMAIN Traces[tid].hdr.cfg |-> 0] /\ done = FALSE
Was(b, r) == <<b, r>> \in called
Sync1Done == \A x \in DOMAIN C : C[x].restore # "none" => Was(x, "restore")
Call(e) ==
    /\ ~done
    /\ CASE e.r = "restore" -> ~Was(e.b, "restore") /\ ~Was(e.b, "regular") /\ C[e.b].restore # "none"
         [] e.r = "async"   -> /\ ~Was(e.b, "async") /\ outv[e.b] = 0        \* only if still uninitialised
                               /\ C[e.b].tmo > 0 /\ C[e.b].asyn # "none"   \* only with a positive timeout
                               /\ Sync1Done                                 \* after the saved states
         [] e.r = "regular" -> ~Was(e.b, "regular") /\ (C[e.b].restore # "none" => Was(e.b, "restore"))
         [] e.r = "initdef" -> ~Was(e.b, "initdef") /\ Was(e.b, "regular") /\ outv[e.b] = 0 /\ C[e.b].initdef
         [] e.r = "event"   -> Was(e.b, "regular")                          \* the synchronous steps ran first
         [] OTHER           -> FALSE                                        \* (e.g. the early event failed)
    /\ called' = called \cup {<<e.b, e.r>>} /\ UNCHANGED <<outv, done>>
Out(e) == /\ ~done /\ outv' = [outv EXCEPT ![e.b] = e.v] /\ UNCHANGED <<called, done>>
Wait(e) ==
    /\ ~done /\ done' = TRUE
    /\ LET R == I!RunX(C, H(tid).order, H(tid).first)
           expected == I!Success(R) /\ ~H(tid).cbfail
       IN  /\ (H(tid).first = 0 => I!Success(R) = I!CanInit(C))         \* (sanity: order independent)
           /\ e.ok = expected
           /\ e.ok => (e.outs = R.out /\ e.ready /\ e.cb = 1 /\ ~e.err)   \* all valid, simulation running
           /\ ~e.ok => e.err                                           \* terminated with an error
           /\ \A b \in DOMAIN C : {r \in {"restore", "async", "regular", "initdef", "event"} : Was(b, r)}
                                    = I!CalledSet(R, b)                \* the documented sources, each once
    /\ (e.ok => e.t <= I!MaxWait(C))        \* never longer than the largest timeout (a failed start
                                            \* additionally waits for the clean-up to finish)
    /\ UNCHANGED <<called, outv>>
(* wait_init() called while the stopped / failed simulation is still cleaning up: the     *)
(* simulation is not running, so it must raise                                           *)
Wait2(e) == done /\ ~e.ok /\ UNCHANGED vars
Step == /\ l <= Len(Ev(tid))
        /\ LET e == Ev(tid)[l] IN
             \/ e.ev = "call" /\ Call(e)
             \/ e.ev = "out" /\ Out(e)
             \/ e.ev = "wait" /\ Wait(e)
             \/ e.ev = "wait2" /\ Wait2(e)
        /\ l' = l + 1 /\ UNCHANGED tid
TraceSpec == TraceInit /\ [][Step]_<<vars, tid, l>>
ASSUME InitRegs
Book == Reach(tid, l, <<called, outv, done>>)
LenOf(t) == Len(Ev(t))
Accepted == AcceptedAll(LenOf)
=============================================================================
