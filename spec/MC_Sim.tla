------------------------------- MODULE MC_Sim -------------------------------
(* Exhaustive: all topologies of NC combinational blocks of kinds {not, and, or, xor}    *)
(* over NS boolean inputs - acyclic (Cyc = FALSE: inputs have lower index) or arbitrary  *)
(* (Cyc = TRUE: any input sets, incl. combinational loops), optional feedback edge from   *)
(* the last block to input 1 (Fb) - all input vectors, bursts of up to 2 changes.        *)
EXTENDS Integers, Sequences, FiniteSets, SequencesExt, TLC
CONSTANTS SelectMin, NS, NC, Cyc, Fb
VARIABLES blocks, out, evalSet, queue, cnt, pc
M == INSTANCE Sim
UNDEF == M!UNDEF
SS == 1..NS
CC == (NS + 1)..(NS + NC)
BB == 1..(NS + NC)
Ref(b) == [c |-> FALSE, x |-> b]
SBlk == [s |-> TRUE, k |-> "s", ins |-> <<>>, p1 |-> 0, p2 |-> 0, fb |-> <<>>]
CBlk(k, ins, fb) == [s |-> FALSE, k |-> k, ins |-> [i \in 1..Len(ins) |-> Ref(ins[i])], p1 |-> 0, p2 |-> 0, fb |-> fb]
Kinds == {"not", "and", "or", "xor"}
InSets(c) == {x \in SUBSET BB : x # {} /\ (Cyc \/ \A i \in x : i < c)}
Topos == {t \in [CC -> [k : Kinds, ins : SUBSET BB]] :
            \A c \in CC : t[c].ins \in InSets(c) /\ (t[c].k = "not" => Cardinality(t[c].ins) = 1)}
Init == /\ \E t \in Topos, fbOn \in (IF Fb THEN BOOLEAN ELSE {FALSE}) :
             blocks = [b \in BB |-> IF b \in SS THEN SBlk
                                    ELSE CBlk(t[b].k, SetToSeq(t[b].ins),
                                              IF fbOn /\ b = NS + NC THEN <<1>> ELSE <<>>)]
        /\ out \in [BB -> {0, 1, UNDEF}]
        /\ \A c \in CC : out[c] = UNDEF
        /\ \A s \in SS : out[s] # UNDEF
        /\ evalSet = CC /\ queue = <<>> /\ cnt = 0 /\ pc = "run"
PutB == \E s \in SS, v \in {0, 1} : Len(queue) < 2 /\ M!Put(s, v)
Next == M!Eval \/ M!Drain \/ M!GoIdle \/ M!Wake \/ PutB
Spec == Init /\ [][Next]_<<blocks, out, evalSet, queue, cnt, pc>>
IdleConsistent == M!IdleConsistent
BoundedWork == M!BoundedWork
EvalSetSound == M!EvalSetSound
(* C10: number of paths from any block to c (acyclic topologies) *)
RECURSIVE Paths(_)
Paths(c) == IF c \in SS THEN 1
            ELSE LET ins == M!InBlocks(c)
                     RECURSIVE Sum(_)
                     Sum(X) == IF X = {} THEN 0 ELSE LET x == CHOOSE y \in X : TRUE IN Paths(x) + Sum(X \ {x})
                 IN  Sum(ins)
RECURSIVE SumPaths(_)
SumPaths(X) == IF X = {} THEN 0 ELSE LET x == CHOOSE y \in X : TRUE IN Paths(x) + SumPaths(X \ {x})
NoFalseAlarm == (~Cyc /\ ~Fb /\ SumPaths(CC) <= 3 * (NS + NC)) => pc # "unstable"
(* C10: a network without any consistent assignment never goes idle (for fixed inputs);  *)
(* work being bounded it must end in "unstable" - checked as an invariant on idle states *)
NoConsistent == ~\E a \in [CC -> {0, 1}] :
                    M!Consistent([b \in BB |-> IF b \in CC THEN a[b] ELSE out[b]])
IdleOnlyIfSolvable == (pc = "idle" /\ queue = <<>>) => ~NoConsistent
UnstableOnlyAtLimit == pc = "unstable" => cnt >= 3 * (NS + NC)
=============================================================================
