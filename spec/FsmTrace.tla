----------------------------- MODULE FsmTrace -----------------------------
(* Trace specification for edzed.FSM (C03): every recorded event() call on the real FSM  *)
(* must have exactly the effect Handle() prescribes: return value, state, output and the *)
(* ordered log of callbacks (with the data tag each one saw) and events sent.            *)
EXTENDS TraceLib
ChainUpdatesCtx == TRUE            \* the documented behaviour is the monitor
VARIABLES st, out, dead, tid, l
F == INSTANCE Fsm
vars == <<st, out, dead>>
Cfg(t) == Traces[t].hdr
Ev(t) == Traces[t].ev
TraceInit == tid \in 1..NTraces /\ l = 1 /\ st = 0 /\ out = 0 /\ dead = FALSE
SameLog(a, b) == /\ Len(a) = Len(b)
                 /\ \A i \in 1..Len(a) : /\ a[i].k = b[i].k /\ a[i].n = b[i].n /\ a[i].f = b[i].f
                                         /\ a[i].tag = b[i].tag /\ a[i].a = b[i].a /\ a[i].b = b[i].b
Step == /\ l <= Len(Ev(tid))
        /\ ~dead
        /\ LET e == Ev(tid)[l]
               r == F!Handle(Cfg(tid), st, out, [goto |-> e.goto, e |-> e.e, d |-> e.d])
           IN  /\ e.ev = "event"
               \* True / False / unknown event / error; an on_enter event that fails non-fatally
               \* reaches the caller as an "unknown event" error as well - after the transition
               /\ (IF r.ret = "raised" THEN "unknown" ELSE r.ret) = e.ret
               /\ e.cerr = (r.ret = "error")          \* only an error stops the simulation
               /\ IF r.ret = "error"
                  THEN dead' = TRUE /\ UNCHANGED <<st, out>>
                  ELSE /\ dead' = FALSE
                       /\ st' = r.st /\ st' = e.st    \* state after the event
                       /\ out' = r.out /\ out' = e.out
                       /\ SameLog(r.log, e.log)       \* actions and events, in order
        /\ l' = l + 1 /\ UNCHANGED tid
TraceSpec == TraceInit /\ [][Step]_<<vars, tid, l>>
ASSUME InitRegs
Book == Reach(tid, l, vars)
LenOf(t) == Len(Ev(t))
Accepted == AcceptedAll(LenOf)
=============================================================================
