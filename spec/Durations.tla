----------------------------- MODULE Durations -----------------------------
(* Durations with units (edzed/utils/timeunits.py), property C19.                        *)
(* An abstract duration x = [y, mo, d, h, m, s, fu, f]: each component is a natural      *)
(* number or ABSENT; fu in {"none","d","h","m","s"} names the component that carries a   *)
(* fractional part of f thousandths (0..999).  A time value is a pair [sec, ms].         *)
(* (TLC integers are 32 bit: whole seconds and milliseconds are kept apart.)             *)
EXTENDS Integers, Sequences

ABSENT == 0 - 1
DAY == 86400
HOUR == 3600
MIN == 60
Scale(u) == CASE u = "d" -> DAY [] u = "h" -> HOUR [] u = "m" -> MIN [] u = "s" -> 1
Present(c) == c # ABSENT
Val(c) == IF c = ABSENT THEN 0 ELSE c
Comp(x, u) == CASE u = "d" -> x.d [] u = "h" -> x.h [] u = "m" -> x.m [] u = "s" -> x.s

(* the smallest unit that is present *)
Smallest(x) == IF Present(x.s) THEN "s" ELSE IF Present(x.m) THEN "m"
               ELSE IF Present(x.h) THEN "h" ELSE IF Present(x.d) THEN "d" ELSE "none"

(* documented validity: at least one part; a fraction only in the smallest unit present; *)
(* calendar years and months must be zero if present                                     *)
Valid(x) == /\ (Present(x.d) \/ Present(x.h) \/ Present(x.m) \/ Present(x.s)
                  \/ Present(x.y) \/ Present(x.mo))
            /\ (x.fu # "none" => (x.fu = Smallest(x) /\ Present(Comp(x, x.fu))))
            /\ Val(x.y) = 0 /\ Val(x.mo) = 0

(* the documented unit arithmetic *)
Value(x) ==
    LET whole == Val(x.d) * DAY + Val(x.h) * HOUR + Val(x.m) * MIN + Val(x.s)
        fms   == IF x.fu = "none" THEN 0 ELSE x.f * Scale(x.fu)      \* milliseconds
    IN  [sec |-> whole + fms \div 1000, ms |-> fms % 1000]

(* time_period(): None stays None (not modelled as a number), negative becomes 0 *)
Period(t, negative) == IF negative THEN [sec |-> 0, ms |-> 0] ELSE t

(* timestr(): d / h / m / s decomposition; d only when non zero, h when d or h, m and s  *)
(* always                                                                                 *)
Decompose(sec) == [d |-> sec \div DAY, h |-> (sec % DAY) \div HOUR,
                   m |-> (sec % HOUR) \div MIN, s |-> sec % MIN]
ShownParts(c) == [d |-> c.d # 0, h |-> c.d # 0 \/ c.h # 0, m |-> TRUE, s |-> TRUE]
Recompose(c) == c.d * DAY + c.h * HOUR + c.m * MIN + c.s

(* ---- values with microsecond resolution: t = [sec, us] ---- *)
Pow10(k) == CASE k = 0 -> 1 [] k = 1 -> 10 [] k = 2 -> 100 [] k = 3 -> 1000
              [] k = 4 -> 10000 [] k = 5 -> 100000 [] k = 6 -> 1000000
(* rounding to prec in 0..6 decimal places; ties are excluded by the caller *)
RoundTo(t, prec) ==
    LET q == Pow10(6 - prec)
        r == ((t.us + q \div 2) \div q) * q
    IN  IF r >= 1000000 THEN [sec |-> t.sec + 1, us |-> 0] ELSE [sec |-> t.sec, us |-> r]
IsTie(t, prec) == prec < 6 /\ (t.us % Pow10(6 - prec)) * 2 = Pow10(6 - prec)

(* a - b, normalised (us in 0..999999, sec may be negative), and |p| < step *)
Minus(a, b) == IF a.us >= b.us THEN [sec |-> a.sec - b.sec, us |-> a.us - b.us]
               ELSE [sec |-> a.sec - b.sec - 1, us |-> a.us - b.us + 1000000]
Abs(p) == IF p.sec >= 0 THEN p
          ELSE IF p.us = 0 THEN [sec |-> 0 - p.sec, us |-> 0]
          ELSE [sec |-> 0 - p.sec - 1, us |-> 1000000 - p.us]
Less(p, q) == p.sec < q.sec \/ (p.sec = q.sec /\ p.us < q.us)
Closer(a, b, step) == Less(Abs(Minus(a, b)), step)

(* timestr_approx(): documented rounding step, by magnitude *)
ApproxStep(t, isfloat) ==
    IF t.sec >= 10 * DAY THEN [sec |-> HOUR, us |-> 0]
    ELSE IF t.sec >= 10 * HOUR THEN [sec |-> MIN, us |-> 0]
    ELSE IF ~isfloat THEN [sec |-> 0, us |-> 1]                 \* integers below 10 h are exact
    ELSE IF t.sec >= 60 THEN [sec |-> 1, us |-> 0]
    ELSE IF t.sec >= 10 THEN [sec |-> 0, us |-> 100000]
    ELSE IF t.sec >= 1 THEN [sec |-> 0, us |-> 10000]
    ELSE [sec |-> 0, us |-> 1000]
(* decimal places of the seconds shown for a float result v, and whether seconds appear *)
ApproxDecimals(v) == IF v.sec >= 60 THEN 0 ELSE IF v.sec >= 10 THEN 1 ELSE IF v.sec >= 1 THEN 2 ELSE 3
ApproxShowsSeconds(v) == v.sec < 10 * HOUR
=============================================================================
