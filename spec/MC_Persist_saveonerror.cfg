SPECIFICATION Spec
CONSTANT DisableOnError = FALSE
INVARIANT StoreIsCurrent
INVARIANT NothingSavedIfStartFailed
INVARIANT StopSavesAll
INVARIANT RestartLaws
PROPERTY NoWriteAfterHandlerError
CHECK_DEADLOCK FALSE
