---------------------------- MODULE APA_Counter ----------------------------
(* Apalache wrapper: the invariants of Counter.tla are inductive over all integers      *)
(* (unbounded amounts, values, initdefs and modulo), not only for the constants of       *)
(* MC_Counter.  apalache-mc check --init=IndInit --inv=IndInv --length=1 and             *)
(* --init=Init --inv=IndInv --length=0.                                                  *)
EXTENDS Integers
NoMod == 0 - 1
VARIABLES
    \* @type: Int;
    val,
    \* @type: Int;
    mod,
    \* @type: Int;
    initv,
    \* @type: { ok: Bool, v: Int };
    ret
C == INSTANCE Counter
Init == \E m \in Int, i \in Int, r \in Int, hr \in BOOLEAN :
            (m = NoMod \/ m > 0) /\ C!InitFrom(m, i, r, hr)
Next == \/ \E a \in Int : C!Inc(a) \/ C!Dec(a) \/ C!Put(a)
        \/ C!Reset
        \/ C!PutMissing
IndInv == /\ (mod = NoMod \/ mod > 0)
          /\ C!InRange
          /\ C!ReturnIsOutput
(* sharpness: without a modulo the value may be negative, so this must NOT be inductive *)
TooStrong == IndInv /\ val >= 0
IndInit == /\ val \in Int /\ mod \in Int /\ initv \in Int
           /\ \E o \in BOOLEAN, v \in Int : ret = [ok |-> o, v |-> v]
           /\ IndInv
=============================================================================
