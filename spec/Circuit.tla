------------------------------ MODULE Circuit ------------------------------
(* Circuit construction and finalisation (edzed/simulator.py: _validate_blk, _finalize,  *)
(* finalize; edzed/block.py: connect), property C15.                                     *)
(*                                                                                       *)
(* A script is a sequence of user blocks [s (sequential), not (a Not block), ins]; ins   *)
(* is a sequence of named inputs [single, refs]; a reference is [t, x] with t = "blk"    *)
(* (object or name of user block x), "inv" (the '_not_NAME' shortcut of block x) or      *)
(* "const" (Const / plain constant x).  The automatic inverter of user block x gets the  *)
(* index n + x (n = number of user blocks).                                              *)
EXTENDS Integers, Sequences, FiniteSets

N(script) == Len(script)
Res(n, r) == CASE r.t = "blk"   -> [c |-> FALSE, x |-> r.x]
               [] r.t = "inv"   -> [c |-> FALSE, x |-> n + r.x]
               [] r.t = "const" -> [c |-> TRUE,  x |-> r.x]

RefsOf(blk) == UNION {{blk.ins[i].refs[j] : j \in DOMAIN blk.ins[i].refs} : i \in DOMAIN blk.ins}
(* extra = user blocks whose '_not_NAME' inverter is referenced only by name from outside *)
(* the wiring (a filter control block such as IfOutput('_not_X'))                         *)
InvSetX(script, extra) ==
    {r.x : r \in {q \in UNION {RefsOf(script[b]) : b \in DOMAIN script} : q.t = "inv"}} \cup extra
InvSet(script) == InvSetX(script, {})

(* ---- declarative definition of the finalized structure ---- *)
BlocksX(script, extra) == (1..N(script)) \cup {N(script) + x : x \in InvSetX(script, extra)}
Blocks(script) == BlocksX(script, {})
ResolvedIns(script, b) ==
    IF b <= N(script)
    THEN [i \in DOMAIN script[b].ins |->
             [single |-> script[b].ins[i].single,
              refs |-> [j \in DOMAIN script[b].ins[i].refs |-> Res(N(script), script[b].ins[i].refs[j])]]]
    ELSE <<[single |-> FALSE, refs |-> <<[c |-> FALSE, x |-> b - N(script)]>>]>>   \* connect(X): group '_'
IConn(script, b) ==
    LET ri == ResolvedIns(script, b) IN
    UNION {{ri[i].refs[j].x : j \in {k \in DOMAIN ri[i].refs : ~ri[i].refs[k].c}} : i \in DOMAIN ri}
OConnX(script, extra, a) == {b \in BlocksX(script, extra) : a \in IConn(script, b)}
OConn(script, a) == OConnX(script, {}, a)

(* ---- the code's two-pass procedure as a state machine ---- *)
(* SecondPass = TRUE is the code (pass 2 over all Not blocks incl. the inverters created  *)
(* in pass 1); FALSE is the deviation "single pass" used as sharpness self-test.          *)
CONSTANTS SecondPass
VARIABLES script, exist, iconn, oconn, todo, pass, frozen
cvars == <<script, exist, iconn, oconn, todo, pass, frozen>>

IsC(b) == IF b <= N(script) THEN ~script[b].s ELSE TRUE
IsNot(b) == IF b <= N(script) THEN script[b].not ELSE TRUE
SortedSeq(S) == LET RECURSIVE Mk(_) Mk(X) == IF X = {} THEN <<>> ELSE
              LET m == CHOOSE y \in X : \A z \in X : y <= z IN <<m>> \o Mk(X \ {m}) IN Mk(S)

StartFinalize == /\ pass = 0 /\ ~frozen
                 /\ todo' = SortedSeq({b \in exist : IsC(b)}) /\ pass' = 1
                 /\ UNCHANGED <<script, exist, iconn, oconn, frozen>>

(* process one block: resolve every reference (creating inverters on demand), then add   *)
(* both directions of every connection                                                   *)
Process == /\ pass \in {1, 2} /\ todo # <<>>
           /\ LET b == Head(todo)
                  ins == IConn(script, b)
                  newinv == {x \in ins : x > N(script)} \ exist
              IN  /\ exist' = exist \cup newinv
                  /\ iconn' = [x \in exist' |-> IF x = b THEN (IF x \in exist THEN iconn[x] ELSE {}) \cup ins
                                                ELSE IF x \in exist THEN iconn[x] ELSE {}]
                  /\ oconn' = [x \in exist' |-> (IF x \in exist THEN oconn[x] ELSE {}) \cup
                                                (IF x \in ins THEN {b} ELSE {})]
           /\ todo' = Tail(todo) /\ UNCHANGED <<script, pass, frozen>>
NextPass == /\ pass = 1 /\ todo = <<>>
            /\ IF SecondPass THEN todo' = SortedSeq({b \in exist : IsNot(b)}) /\ pass' = 2
                             ELSE todo' = <<>> /\ pass' = 2
            /\ UNCHANGED <<script, exist, iconn, oconn, frozen>>
Finish == /\ pass = 2 /\ todo = <<>> /\ ~frozen
          /\ frozen' = TRUE /\ UNCHANGED <<script, exist, iconn, oconn, todo, pass>>
(* after finalisation nothing can be added or connected: modelled as absence of such steps *)
CNext == StartFinalize \/ Process \/ NextPass \/ Finish

(* ---- properties ---- *)
Biconditional == frozen => \A a \in exist, b \in exist :
                     (b \in oconn[a]) = (a \in iconn[b])
MatchesDeclaration == frozen => /\ exist = Blocks(script)
                                /\ \A b \in exist : iconn[b] = IConn(script, b) /\ oconn[b] = OConn(script, b)
InverterUnique == frozen => \A x \in InvSet(script) :
                     /\ N(script) + x \in exist /\ iconn[N(script) + x] = {x}
                     /\ N(script) + x \in oconn[x]
=============================================================================
