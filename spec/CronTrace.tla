----------------------------- MODULE CronTrace -----------------------------
(* Monitor for TimeDate / TimeSpan (C07): the outputs follow the wall clock.              *)
(* hdr: blocks[b] = [kind ("td" | "ts"), utc, cfg]; a TimeDate cfg is [ht, times, hd,      *)
(* dates, hw, weekdays] (ht / hd / hw = the item is given), a TimeSpan cfg is [span].     *)
(* lines: sample(lt, loc, utc, outs) - loc / utc = [lo, at, hi, wlo, wat, whi]: the wall   *)
(*          clock (local and UTC) Eps before, at and Eps after the sample as date-time     *)
(*          tuples <<y, mo, d, h, mi, s, us>> with their ISO weekdays; outs = outputs;     *)
(*        reconfig(b, cfg);  jump(lt, fwd) - the system clock was stepped;                 *)
(*        end(err) - the run is over, err = the simulation had failed.                    *)
(* A block must show Pred(cfg, now) whenever Pred is the same Eps before, at and Eps      *)
(* after the sample (i.e. no boundary of that block is within Eps), except during the     *)
(* hour after a forward clock jump.                                                       *)
EXTENDS TraceLib
VARIABLES cfg, lastJump, exempt, tid, l
I == INSTANCE Intervals
vars == <<cfg, lastJump, exempt>>
H(t) == Traces[t].hdr
Ev(t) == Traces[t].ev
HOUR_MS == 3600000
TraceInit == /\ tid \in 1..NTraces /\ l = 1
             /\ cfg = [b \in DOMAIN Traces[tid].hdr.blocks |-> Traces[tid].hdr.blocks[b].cfg]
             /\ lastJump = 0 - 2 * HOUR_MS /\ exempt = FALSE
Tod(m) == SubSeq(m, 4, 7)
MD(m) == <<m[2], m[3]>>
SeqSet(s) == {s[i] : i \in DOMAIN s}
PredTD(c, m, wd) == /\ (c.ht \/ c.hd \/ c.hw)                       \* False when nothing is configured
                    /\ (c.ht => I!Member("time", Tod(m), c.times))
                    /\ (c.hd => I!Member("date", MD(m), c.dates))
                    /\ (c.hw => wd \in SeqSet(c.weekdays))
PredTS(c, m) == I!Member("dt", m, c.span)
Pred(b, c, m, wd) == IF H(tid).blocks[b].kind = "td" THEN PredTD(c, m, wd) ELSE PredTS(c, m)
Sample(e) ==
    /\ \A b \in DOMAIN cfg :
          LET w == IF H(tid).blocks[b].utc THEN e.utc ELSE e.loc
              p == Pred(b, cfg[b], w.at, w.wat)
          IN  (/\ ~exempt /\ e.lt - lastJump > HOUR_MS + 60000
               /\ Pred(b, cfg[b], w.lo, w.wlo) = p /\ Pred(b, cfg[b], w.hi, w.whi) = p)
              => e.outs[b] = (IF p THEN 1 ELSE 0)
    /\ UNCHANGED vars
Reconfig(e) == cfg' = [cfg EXCEPT ![e.b] = e.cfg] /\ UNCHANGED <<lastJump, exempt>>
Jump(e) == /\ lastJump' = e.lt /\ exempt' = (exempt \/ ~e.fwd) /\ UNCHANGED cfg
End(e) == ~e.err /\ UNCHANGED vars                 \* a clock jump never terminates the simulation
Step == /\ l <= Len(Ev(tid))
        /\ LET e == Ev(tid)[l] IN
             \/ e.ev = "sample" /\ Sample(e)
             \/ e.ev = "reconfig" /\ Reconfig(e)
             \/ e.ev = "jump" /\ Jump(e)
             \/ e.ev = "end" /\ End(e)
        /\ l' = l + 1 /\ UNCHANGED tid
TraceSpec == TraceInit /\ [][Step]_<<vars, tid, l>>
ASSUME InitRegs
Book == Reach(tid, l, <<lastJump, exempt>>)
LenOf(t) == Len(Ev(t))
Accepted == AcceptedAll(LenOf)
=============================================================================
