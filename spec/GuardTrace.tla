---------------------------- MODULE GuardTrace ----------------------------
(* Trace specification for the recursion guard (C11).  hdr = event graph (kind, edges)   *)
(* and the value vector observed after start-up.  Each line is one external event with   *)
(* what was observed at SBlock.event(): enter/leave/fail records, the exception seen by  *)
(* the caller, Circuit.error, the blocks found locked afterwards, the value vector.       *)
EXTENDS TraceLib
ResetOnError == TRUE
VARIABLES vals, dead, tid, l
G == INSTANCE Guard
vars == <<vals, dead>>
H(t) == Traces[t].hdr
Ev(t) == Traces[t].ev
TraceInit == tid \in 1..NTraces /\ l = 1 /\ vals = H(tid).vals /\ dead = FALSE
Step == /\ l <= Len(Ev(tid)) /\ ~dead
        /\ LET e == Ev(tid)[l] IN
             /\ e.ev = "ext"
             /\ e.locked = <<>>                         \* every block accepts events again
             /\ IF e.bad # "none"
                THEN \* unknown type / wrong parameters: reported to the caller only
                     /\ e.exc = e.bad /\ ~e.cerr /\ e.vals = vals /\ UNCHANGED vars
                ELSE LET r == G!External(H(tid), e.b, e.v, vals) IN
                     /\ e.exc = (IF r.err THEN "circuit" ELSE "none")
                     /\ e.cerr = r.err                  \* a refused event stops the simulation
                     /\ r.log = e.log                   \* who handled what, in which nesting
                     /\ e.vals = r.vals
                     /\ vals' = r.vals /\ dead' = r.err
        /\ l' = l + 1 /\ UNCHANGED tid
TraceSpec == TraceInit /\ [][Step]_<<vars, tid, l>>
ASSUME InitRegs
Book == Reach(tid, l, vars)
LenOf(t) == Len(Ev(t))
Accepted == AcceptedAll(LenOf)
=============================================================================
