---------------------------- MODULE GuardTrace ----------------------------
(* Trace specification for the recursion guard (C11).  hdr = event graph (kind, edges)   *)
(* and the value vector observed after start-up.  Each line is one external event with   *)
(* what was observed at SBlock.event(): enter/leave/fail records, the exception seen by  *)
(* the caller, Circuit.error, the blocks found locked afterwards, the value vector.       *)
EXTENDS TraceLib
ResetOnError == TRUE
ZeroTimerGuarded == TRUE
VARIABLES vals, dead, tid, l
G == INSTANCE Guard
vars == <<vals, dead>>
H(t) == Traces[t].hdr
Ev(t) == Traces[t].ev
(* the start-up: blocks initialise each other by events, in whatever order; the model does  *)
(* not predict that cascade, but the rule itself is checked on the recorded nesting: a     *)
(* block that is handling an event (enter .. leave/fail) is entered again only inside its  *)
(* own initialisation window (ib .. ie: the documented "initialisation by an event") - any *)
(* other attempt is refused at once (enter immediately followed by fail)                   *)
RECURSIVE ScanOk(_, _, _, _)
ScanOk(lg, i, act, ini) ==
    IF i > Len(lg) THEN TRUE
    ELSE LET x == lg[i]  b == lg[i][2] IN
         CASE x[1] = "enter" -> /\ \/ act[b] = 0 \/ b \in ini
                                   \/ (i < Len(lg) /\ lg[i + 1][1] = "fail" /\ lg[i + 1][2] = b)
                                /\ ScanOk(lg, i + 1, [act EXCEPT ![b] = @ + 1], ini)
           [] x[1] \in {"leave", "fail"} -> ScanOk(lg, i + 1, [act EXCEPT ![b] = @ - 1], ini)
           [] x[1] = "ib" -> ScanOk(lg, i + 1, act, ini \cup {b})
           [] x[1] = "ie" -> ScanOk(lg, i + 1, act, ini \ {b})
           [] OTHER -> FALSE
(* an attempt that was refused: enter immediately followed by fail of the same block      *)
HasRefusal(lg) == \E i \in 1..(Len(lg) - 1) : lg[i][1] = "enter" /\ lg[i + 1][1] = "fail" /\ lg[i + 1][2] = lg[i][2]
(* ... and the start-up of these circuits fails for no other reason than a refused event  *)
(* (a filter rejection or a conditional event resolving to "no event" stops nothing)      *)
Startup(e) == /\ ScanOk(e.log, 1, [b \in 1..Len(H(tid).kind) |-> 0], {})
              /\ (e.cerr => HasRefusal(e.log))
TraceInit == tid \in 1..NTraces /\ l = 1 /\ vals = H(tid).vals /\ dead = FALSE
Step == /\ l <= Len(Ev(tid)) /\ ~dead
        /\ LET e == Ev(tid)[l] IN
           IF e.ev = "startup" THEN Startup(e) /\ l = 1 /\ dead' = e.cerr /\ UNCHANGED vals ELSE
             /\ e.ev = "ext"
             /\ e.locked = <<>>                         \* every block accepts events again
             /\ IF e.bad # "none"
                THEN \* unknown type / wrong parameters: reported to the caller only
                     /\ e.exc = e.bad /\ ~e.cerr /\ e.vals = vals /\ UNCHANGED vars
                ELSE LET r == G!External(H(tid), e.b, e.v, vals) IN
                     /\ e.exc = (IF r.err THEN "circuit" ELSE "none")
                     /\ e.cerr = r.err                  \* a refused event stops the simulation
                     /\ r.log = e.log                   \* who handled what, in which nesting
                     /\ e.vals = r.vals
                     /\ vals' = r.vals /\ dead' = r.err
        /\ l' = l + 1 /\ UNCHANGED tid
TraceSpec == TraceInit /\ [][Step]_<<vars, tid, l>>
ASSUME InitRegs
Book == Reach(tid, l, vars)
LenOf(t) == Len(Ev(t))
Accepted == AcceptedAll(LenOf)
=============================================================================
