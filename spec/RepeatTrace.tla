---------------------------- MODULE RepeatTrace ----------------------------
(* Trace specification for one Repeat block (C18); a chain of Repeat blocks gives one    *)
(* trace per block (what one block sends is what the next one receives).                 *)
(* hdr: interval (ticks), count (-1 = None), me (code of this block as 'source').        *)
(* lines: recv(t, m, d, fwd, out) - an event arrived (m = it has the configured type),   *)
(*           fwd = what the destination received before the handler returned;            *)
(*        rep(t, f, out) - the destination received f outside a handler: a repetition;   *)
(*        stall(t, k) - the event loop was kept busy from t for k ticks;                 *)
(*        error(...) - the simulation failed;  stop(t);  end(t).                         *)
EXTENDS TraceLib
VARIABLES s, now, free, phase, tid, l
R == INSTANCE Repeat
vars == <<s, now, free, phase>>
H(t) == Traces[t].hdr
Ev(t) == Traces[t].ev
TraceInit == tid \in 1..NTraces /\ l = 1 /\ s = R!Init0 /\ now = 0 /\ free = 0 /\ phase = "run"
(* a due repetition was not skipped (free = the instant the loop became free after the   *)
(* last stall: things that became due during the stall happen then, in any order)        *)
NotOverdue(t) == s.due = R!NONE \/ s.due >= t \/ t = free
Same(f, g) == /\ f.tag = g.tag /\ f.val = g.val /\ f.x = g.x      \* original items kept
              /\ f.rep = g.rep /\ f.src = g.src /\ f.orig = g.orig
RecvLine(e) ==
    /\ e.ev = "recv" /\ phase = "run" /\ e.t >= now /\ NotOverdue(e.t)
    /\ IF e.m
       THEN /\ s' = R!Recv(H(tid), s, e.t, e.d)
            /\ Len(e.fwd) = 1 /\ Same(e.fwd[1], R!Sent(H(tid).me, e.d, 0))   \* forwarded at once, repeat=0
       ELSE /\ e.fwd = <<>> /\ UNCHANGED s                                     \* other types are ignored
    /\ e.out = s'.out
    /\ now' = e.t /\ UNCHANGED <<phase, free>>
RepLine(e) ==
    /\ e.ev = "rep" /\ phase = "run" /\ e.t >= now
    /\ s.due # R!NONE
    /\ e.t = (IF s.due >= free THEN s.due ELSE free)        \* exactly one interval after the last one
                                                            \* (or as soon as a busy loop is free again)
    /\ Same(e.f, R!Sent(H(tid).me, s.last, s.n + 1))        \* the most recent event, next number
    /\ s' = R!Tick(H(tid), s, e.t) /\ e.out = s'.out
    /\ now' = e.t /\ UNCHANGED <<phase, free>>
StallLine(e) == /\ e.ev = "stall" /\ phase = "run" /\ e.t >= now /\ NotOverdue(e.t)
                /\ now' = e.t + e.k /\ free' = e.t + e.k /\ UNCHANGED <<s, phase>>
StopLine(e) == /\ e.ev = "stop" /\ phase = "run" /\ e.t >= now /\ NotOverdue(e.t)
               /\ phase' = "stopped" /\ now' = e.t /\ UNCHANGED <<s, free>>
EndLine(e) == /\ e.ev = "end" /\ phase = "stopped" /\ e.t >= now
              /\ phase' = "ended" /\ now' = e.t /\ UNCHANGED <<s, free>>
Step == /\ l <= Len(Ev(tid))
        /\ LET e == Ev(tid)[l] IN RecvLine(e) \/ RepLine(e) \/ StallLine(e) \/ StopLine(e) \/ EndLine(e)
        /\ l' = l + 1 /\ UNCHANGED tid
TraceSpec == TraceInit /\ [][Step]_<<vars, tid, l>>
ASSUME InitRegs
Book == /\ Reach(tid, l, vars)
        /\ Soft(tid, l, "CountBound", R!CountBound(H(tid), s))
        /\ Soft(tid, l, "OutputIsLastRepeat", R!OutputIsLastRepeat(s))
LenOf(t) == Len(Ev(t))
Accepted == AcceptedAll(LenOf)
=============================================================================
