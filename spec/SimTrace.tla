----------------------------- MODULE SimTrace -----------------------------
(* Trace specification (monitor) for the simulator, properties C01 and C10.              *)
(* hdr: blocks (as in Sim.tla), sinit (outputs of the sequential blocks after            *)
(* initialisation), nblocks (number of blocks the real circuit reports), noalarm (the    *)
(* network is acyclic with at most 3*|blocks| source-to-block paths).                    *)
(* lines: eval(c, v, changed) - seen at CBlock.eval_block();  put(s, v) - an external    *)
(* event changed/assigned sequential block s;  idle(outs) - the driver found the         *)
(* simulator suspended with an empty queue;  unstable - the run ended with the           *)
(* instability error.  The monitor allows ANY pending block to be evaluated next         *)
(* (SelectMin = FALSE); Wake and Drain are implicit in eval/idle/unstable.               *)
EXTENDS TraceLib
SelectMin == FALSE
VARIABLES blocks, out, evalSet, queue, cnt, pc, tid, l
M == INSTANCE Sim
vars == <<blocks, out, evalSet, queue, cnt, pc>>
H(t) == Traces[t].hdr
Ev(t) == Traces[t].ev
TraceInit == /\ tid \in 1..NTraces /\ l = 1
             /\ blocks = H(tid).blocks
             /\ Len(H(tid).blocks) = H(tid).nblocks             \* no unexpected blocks
             /\ out = [b \in DOMAIN H(tid).blocks |->
                          IF H(tid).blocks[b].s THEN H(tid).sinit[b] ELSE M!UNDEF]
             /\ evalSet = {b \in DOMAIN H(tid).blocks : ~H(tid).blocks[b].s}
             /\ queue = <<>> /\ cnt = 0 /\ pc = "run"
Pending == evalSet \cup M!OConnAll(queue)          \* after the implicit Drain
Cnt0 == IF pc = "idle" THEN 0 ELSE cnt             \* the counter is reset on wake-up
TrEval(e) ==
    /\ pc \in {"run", "idle"} /\ (pc = "idle" => queue # <<>>)
    /\ e.c \in Pending
    /\ Cnt0 + 1 <= M!Limit                          \* bounded work per burst
    /\ LET v == M!F(e.c, out)
           changed == ~M!CB!Eq(v, out[e.c])
           o1 == IF changed THEN [out EXCEPT ![e.c] = v] ELSE out
           fed == IF changed THEN M!Feed(blocks[e.c].fb, 1, v, o1, <<>>) ELSE [o |-> o1, q |-> <<>>]
       IN  /\ e.v = o1[e.c] /\ e.changed = changed  \* the documented function of the block (an equal
                                                     \* result leaves the old object in place)
           /\ out' = fed.o /\ queue' = fed.q
           /\ evalSet' = (Pending \ {e.c}) \cup (IF changed THEN M!OConn(e.c) ELSE {})
    /\ cnt' = Cnt0 + 1 /\ pc' = "run" /\ UNCHANGED blocks
TrIdle(e) ==
    /\ pc \in {"run", "idle"} /\ Pending = {}
    /\ e.outs = out
    /\ pc' = "idle" /\ queue' = <<>> /\ evalSet' = {} /\ UNCHANGED <<blocks, out, cnt>>
TrPut(e) ==
    /\ pc = "idle" /\ blocks[e.s].s
    /\ out' = [out EXCEPT ![e.s] = e.v]
    /\ queue' = IF out[e.s] = e.v THEN queue ELSE Append(queue, e.s)
    /\ UNCHANGED <<blocks, evalSet, cnt, pc>>
TrUnstable(e) ==
    /\ pc \in {"run", "idle"} /\ Pending # {} /\ Cnt0 + 1 > M!Limit
    /\ ~H(tid).noalarm                               \* never for a network with few paths
    /\ pc' = "unstable" /\ UNCHANGED <<blocks, out, evalSet, queue, cnt>>
Step == /\ l <= Len(Ev(tid))
        /\ LET e == Ev(tid)[l] IN
             \/ e.ev = "eval" /\ TrEval(e)
             \/ e.ev = "idle" /\ TrIdle(e)
             \/ e.ev = "put" /\ TrPut(e)
             \/ e.ev = "unstable" /\ TrUnstable(e)
        /\ l' = l + 1 /\ UNCHANGED tid
TraceSpec == TraceInit /\ [][Step]_<<vars, tid, l>>
ASSUME InitRegs
Book == /\ Reach(tid, l, <<out, evalSet, queue, cnt, pc>>)
        /\ Soft(tid, l, "IdleConsistent", M!IdleConsistent)
        /\ Soft(tid, l, "BoundedWork", M!BoundedWork)
LenOf(t) == Len(Ev(t))
Accepted == AcceptedAll(LenOf)
=============================================================================
