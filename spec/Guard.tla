------------------------------- MODULE Guard -------------------------------
(* The recursion guard of SBlock.event() (edzed/block.py), property C11.                 *)
(*                                                                                       *)
(* An event graph g: g.kind[b] in {"fwd" (probe / Repeat: forwards the value),           *)
(* "chg" (Input: forwards iff its value changed), "tgl" (Counter mod 2 / two-state FSM:  *)
(* toggles and forwards the new value)}; g.edges[b] = ordered list of events sent by b:  *)
(* [to, trig ("out" = on change, "every" = on every assignment), filter ("pass"|"reject")*)
(* cond ("none" | "tnone" = EventCond(None, etype) | "fnone" = EventCond(etype, None))]. *)
(*                                                                                       *)
(* One external event is handled synchronously and depth-first; Deliver threads the      *)
(* state S = [vals, act, log, err]:  act = blocks whose event() is active (the           *)
(* _event_active flags), log = enter / leave / fail records as seen at SBlock.event().   *)
(* ResetOnError = TRUE is the code's try/finally; FALSE is the deviation "flag not       *)
(* cleared on the exception path" used as a sharpness self-test.                         *)
(*                                                                                       *)
(* Kind "ztg" = a two-state FSM whose states are timed with a ZERO duration and whose    *)
(* timed event has no transition: entering the new state delivers the timed event at     *)
(* once, from inside the FSM's enable-window (fsm.py:_start_timer), the event is checked *)
(* - no transition - and the on_notrans events (= the edges) are sent.  The code sends   *)
(* the timed event through event(), so the guard is held while the edges are followed    *)
(* and an event coming back is refused; the output is assigned only afterwards, so it    *)
(* keeps its old value when the cascade fails.  win = blocks whose window was left open  *)
(* (deviation only): an event coming back is then accepted as a chained transition.      *)
EXTENDS Integers, Sequences

CONSTANTS ResetOnError,
          ZeroTimerGuarded   \* TRUE = the code: an FSM's zero-length timed event goes through event()
                             \* again, i.e. the guard is taken for the time it is checked; FALSE = the
                             \* deviation "handled by _event() directly inside the enable-window"

Truthy(v) == v = 1
Log(S, k, b, v) == [S EXCEPT !.log = Append(@, <<k, b, v>>)]

RECURSIVE Deliver(_, _, _, _, _), SendAll(_, _, _, _, _, _)

(* event() of block b with value v; condNone = the (conditional) event type resolved to  *)
(* "no event": the guard is taken and released, the handler is not called                *)
Deliver(g, b, v, condNone, S) ==
    IF S.err THEN S
    ELSE IF b \in S.win
    THEN Log(Log(S, "enter", b, v), "leave", b, v)          \* (deviation) accepted inside the window
    ELSE IF b \in S.act
    THEN [Log(Log(S, "enter", b, v), "fail", b, v) EXCEPT !.err = TRUE]     \* refused, fatal
    ELSE LET S1 == [Log(S, "enter", b, v) EXCEPT !.act = @ \cup {b}]
             S2 == IF condNone THEN S1
                   ELSE CASE g.kind[b] = "fwd" -> SendAll(g, b, v, TRUE, 1, S1)
                          [] g.kind[b] = "chg" ->
                               SendAll(g, b, v, S1.vals[b] # v, 1, [S1 EXCEPT !.vals[b] = v])
                          [] g.kind[b] = "tgl" ->
                               SendAll(g, b, 1 - S1.vals[b], TRUE, 1, [S1 EXCEPT !.vals[b] = 1 - @])
                          [] g.kind[b] = "ztg" ->
                               LET W == IF ZeroTimerGuarded THEN S1
                                        ELSE [S1 EXCEPT !.act = @ \ {b}, !.win = @ \cup {b}]
                                   T == SendAll(g, b, 1 - S1.vals[b], TRUE, 1, W)
                               IN  IF T.err THEN T
                                   ELSE [T EXCEPT !.vals[b] = 1 - @, !.win = @ \ {b}, !.act = @ \cup {b}]
         IN  IF S2.err
             THEN [Log(S2, "fail", b, v) EXCEPT !.act = IF ResetOnError THEN @ \ {b} ELSE @]
             ELSE [Log(S2, "leave", b, v) EXCEPT !.act = @ \ {b}]

(* the events of block b, in configured order; changed = the output changed *)
SendAll(g, b, v, changed, i, S) ==
    IF S.err \/ i > Len(g.edges[b]) THEN S
    ELSE LET e == g.edges[b][i] IN
         IF (e.trig = "out" /\ ~changed) \/ e.filter = "reject"
         THEN SendAll(g, b, v, changed, i + 1, S)
         ELSE LET none == (e.cond = "tnone" /\ Truthy(v)) \/ (e.cond = "fnone" /\ ~Truthy(v))
              IN  SendAll(g, b, v, changed, i + 1, Deliver(g, e.to, v, none, S))

Start(vals) == [vals |-> vals, act |-> {}, win |-> {}, log |-> <<>>, err |-> FALSE]
External(g, b, v, vals) == Deliver(g, b, v, FALSE, Start(vals))

(* ---- properties of one result ---- *)
Released(S) == S.act = {}
(* no block is entered while it is active: between an accepted enter and its leave/fail  *)
(* there is no second accepted enter of the same block                                   *)
RECURSIVE DepthOk(_, _, _)
DepthOk(log, i, open) ==
    IF i > Len(log) THEN TRUE
    ELSE LET r == log[i] IN
         IF r[1] = "enter"
         THEN (IF r[2] \in open
               THEN i < Len(log) /\ log[i + 1][1] = "fail" /\ log[i + 1][2] = r[2]
                    /\ DepthOk(log, i + 2, open)                  \* refused at once
               ELSE DepthOk(log, i + 1, open \cup {r[2]}))
         ELSE DepthOk(log, i + 1, open \ {r[2]})
Depth1(S) == DepthOk(S.log, 1, {})
RecursionIsFatal(S) == S.err <=> \E i \in DOMAIN S.log : S.log[i][1] = "fail"
=============================================================================
