--------------------------- MODULE FsmTimedTrace ---------------------------
(* Trace specification for timed FSM states (C04).  Recorded on the real edzed under the *)
(* virtual-time loop: every external event, every timer expiry (a top-level FSM.event()  *)
(* call made by the loop), the stop and the end of the run, each with the virtual time   *)
(* in ticks, the FSM state, the block output, the FSM timer handles found in the loop's  *)
(* heap and the expiry time reported by get_state().                                     *)
(*  - a timer that is due strictly before the time of the next line must have fired      *)
(*    (exactly once, on time); an expiry and a stimulus at the same instant may come in  *)
(*    either order;                                                                      *)
(*  - a fire line must be the pending timer of the specification at its due time;        *)
(*  - the loop's handles are exactly the one pending timer (or none) after every step;   *)
(*  - nothing is pending and nothing fires after stop.                                   *)
EXTENDS TraceLib
VARIABLES st, tm, val, now, phase, tid, l
F == INSTANCE FsmTimed WITH CancelOnExit <- TRUE, FiredTimerCleared <- TRUE, RestoreTimerFirst <- TRUE
vars == <<st, tm, val, now, phase>>
Cfg(t) == Traces[t].hdr
Ev(t) == Traces[t].ev
EXPIRED == 77
TraceInit == tid \in 1..NTraces /\ l = 1 /\ st = 0 /\ tm = F!NoTimer /\ val = 0 /\ now = 0 /\ phase = "new"

Out(c, s, v) == IF c.kind = "timer" THEN (IF s = 2 THEN 1 ELSE 0)
                ELSE IF c.kind = "inputexp" THEN (IF s = 2 THEN v ELSE EXPIRED)
                ELSE s
Pend(t) == IF t = F!NoTimer THEN <<>> ELSE <<[due |-> t.due, e |-> t.ev]>>
Gs(t) == IF t = F!NoTimer THEN 0 - 1 ELSE t.due
NotOverdue(t) == tm = F!NoTimer \/ tm.due >= t

(* common part of init / ext / fire: the record must show the result r *)
Shows(e, r, v) ==
    /\ e.ret = r.ret
    /\ IF r.ret = "error"
       THEN phase' = "dead" /\ st' = r.st /\ tm' = F!NoTimer /\ val' = v
       ELSE /\ phase' = "run"
            /\ st' = r.st /\ e.st = r.st
            /\ tm' = r.tm /\ e.pend = Pend(r.tm)            \* the loop's FSM handles
            /\ e.gs = Gs(r.tm)                               \* get_state() expiry
            /\ val' = v /\ e.out = Out(Cfg(tid), r.st, v)

InitLine(e) == /\ e.ev = "init" /\ phase = "new" /\ e.t = 0
               /\ Shows(e, IF Cfg(tid).rest.on THEN F!RestoreFb(Cfg(tid), Cfg(tid).rest.s, Cfg(tid).rest.due, Cfg(tid).rest.fb, 0)
                           ELSE F!Enter(Cfg(tid), Cfg(tid).init, F!ABSENTV, 0, FALSE, 0, FALSE), Cfg(tid).initv)
               /\ now' = 0
ExtLine(e) == /\ e.ev = "ext" /\ phase = "run" /\ e.t >= now /\ NotOverdue(e.t)
              /\ LET r == F!HandleC(Cfg(tid), st, tm, e.e, e.d, e.t, TRUE, e.c = 1)
                 IN  Shows(e, r, IF Cfg(tid).kind = "inputexp" /\ r.ret = "true" /\ e.e < 100 THEN e.v ELSE val)
              /\ now' = e.t
FireLine(e) == /\ e.ev = "fire" /\ phase = "run" /\ e.t >= now
               /\ tm # F!NoTimer /\ tm.due = e.t /\ tm.ev = e.e          \* the current timer, on time
               /\ Shows(e, F!Expire(Cfg(tid), st, tm, e.t), val)
               /\ now' = e.t
StopLine(e) == /\ e.ev = "stop" /\ phase \in {"run", "dead"} /\ e.t >= now
               /\ (phase = "run" => NotOverdue(e.t))
               /\ e.pend = <<>>                                         \* FSM.stop() cancels the timer
               /\ phase' = "stopped" /\ tm' = F!NoTimer /\ now' = e.t /\ UNCHANGED <<st, val>>
EndLine(e) == /\ e.ev = "end" /\ phase \in {"stopped", "run"} /\ e.t >= now
              /\ (phase = "run" => NotOverdue(e.t) /\ e.pend = Pend(tm))
              /\ (phase = "stopped" => e.pend = <<>>)
              /\ phase' = "ended" /\ now' = e.t /\ UNCHANGED <<st, tm, val>>
Step == /\ l <= Len(Ev(tid))
        /\ LET e == Ev(tid)[l] IN InitLine(e) \/ ExtLine(e) \/ FireLine(e) \/ StopLine(e) \/ EndLine(e)
        /\ l' = l + 1 /\ UNCHANGED tid
TraceSpec == TraceInit /\ [][Step]_<<vars, tid, l>>
ASSUME InitRegs
Book == Reach(tid, l, vars)
LenOf(t) == Len(Ev(t))
Accepted == AcceptedAll(LenOf)
=============================================================================
