SPECIFICATION Spec
CONSTANTS ReloadRecalcs = TRUE
 ResetSurvivesEmpty = FALSE
 WithY = FALSE
INVARIANT OutputCorrect
INVARIANT JumpNeverKills
CHECK_DEADLOCK FALSE
