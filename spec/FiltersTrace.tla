--------------------------- MODULE FiltersTrace ---------------------------
(* Trace specification for Event.send with filter pipelines (C16).                       *)
(* hdr: filters (pipeline of the Event under test), ctl0 (initial control blocks).       *)
(* lines: ctl(blk, out, init)  - a control block's output / initialisation state changed *)
(*        send(data, ret, n, got) - one Event.send(): ret = "ok" (sent) | "rej" | "err"  *)
EXTENDS TraceLib
VARIABLES mem, ctl, tid, l
F == INSTANCE Filters
vars == <<mem, ctl>>
SRC == 800                                 \* code of the sending block's name
Ev(t) == Traces[t].ev
Fs(t) == Traces[t].hdr.filters
TraceInit == /\ tid \in 1..NTraces /\ l = 1
             /\ mem = [i \in 1..Len(Fs(tid)) |-> F!UNDEF]
             /\ ctl = Traces[tid].hdr.ctl0
Step == /\ l <= Len(Ev(tid))
        /\ LET e == Ev(tid)[l] IN
             \/ /\ e.ev = "ctl"
                /\ ctl' = [ctl EXCEPT ![e.blk] = [out |-> e.out, init |-> e.init]]
                /\ UNCHANGED mem
             \/ /\ e.ev = "send"
                /\ LET r == F!Pipe(Fs(tid), F!Put(e.data, "source", SRC), mem, ctl, 1) IN
                     /\ r.st = e.ret                       \* sent / rejected / raised
                     /\ mem' = r.mem
                     /\ IF r.st = "ok" THEN e.n = 1 /\ F!Same(e.got, r.d)   \* exactly the filtered data
                                       ELSE e.n = 0                         \* destination got nothing
                /\ UNCHANGED ctl
        /\ l' = l + 1 /\ UNCHANGED tid
TraceSpec == TraceInit /\ [][Step]_<<vars, tid, l>>
ASSUME InitRegs
Book == Reach(tid, l, vars)
LenOf(t) == Len(Ev(t))
Accepted == AcceptedAll(LenOf)
=============================================================================
