SPECIFICATION Spec
INVARIANT DeltaMemory
PROPERTY DeltaRule
CHECK_DEADLOCK FALSE
