SPECIFICATION Spec
CONSTANTS SelectMin = FALSE
 NS = 2
 NC = 2
 Cyc = FALSE
 Fb = FALSE
INVARIANT IdleConsistent
INVARIANT BoundedWork
INVARIANT EvalSetSound
INVARIANT NoFalseAlarm
INVARIANT IdleOnlyIfSolvable
INVARIANT UnstableOnlyAtLimit
CHECK_DEADLOCK FALSE
