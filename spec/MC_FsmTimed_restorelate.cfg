SPECIFICATION Spec
CONSTANTS CancelOnExit = TRUE
 FiredTimerCleared = TRUE
 RestoreTimerFirst = FALSE
 StartMode = "restore"
 MaxNow = 3
 MaxLevel = 8
 MinStop = 0
 Tables = "some"
INVARIANT AtMostOnePending
INVARIANT Refines
INVARIANT ReportedIsPending
INVARIANT NothingAfterStop
INVARIANT OnTime
INVARIANT StateValid
INVARIANT NoStaleFire
CONSTRAINT Bound
VIEW View
CHECK_DEADLOCK FALSE
