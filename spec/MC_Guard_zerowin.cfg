SPECIFICATION Spec
CONSTANTS ResetOnError = TRUE
 ZeroTimerGuarded = FALSE
 KindSet = "z"
 NN = 2
 Mode = "plain"
INVARIANT Released
INVARIANT Depth1
INVARIANT RecursionIsFatal
CHECK_DEADLOCK FALSE
