SPECIFICATION Spec
CONSTANTS SelectMin = TRUE
 NS = 2
 NC = 2
 Cyc = TRUE
 Fb = TRUE
INVARIANT IdleConsistent
INVARIANT BoundedWork
INVARIANT EvalSetSound
INVARIANT IdleOnlyIfSolvable
INVARIANT UnstableOnlyAtLimit
CHECK_DEADLOCK FALSE
