SPECIFICATION Spec
CONSTRAINT ExportC
CHECK_DEADLOCK FALSE
