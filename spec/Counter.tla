------------------------------ MODULE Counter ------------------------------
(* edzed.Counter (blocklib/sblocks1.py): events inc/dec/put/reset, optional modulo.      *)
(* Property C20.  Numbers are integers; a fractional modulo (2.5) is handled by scaling  *)
(* every number of a run by a common factor, which preserves all the arithmetic below.   *)
(* One action per event handler; the return value of event() is part of the state (ret)  *)
(* because "every event returns the updated output" is part of the property.             *)
EXTENDS Integers

CONSTANTS
    \* @type: Int;
    NoMod          \* model value standing for modulo=None (must not be a positive int)

VARIABLES
    \* @type: Int;
    val,           \* the counter's output (= internal state)
    \* @type: Int;
    mod,           \* modulo M > 0 or NoMod        (configuration, never changes)
    \* @type: Int;
    initv,         \* initdef                       (configuration, never changes)
    \* @type: { ok: Bool, v: Int };
    ret            \* result of the last event: [ok |-> BOOLEAN, v |-> Int]

vars == <<val, mod, initv, ret>>
\* @type: <<Int, Int>>;
conf == <<mod, initv>>

Red(v) == IF mod = NoMod THEN v ELSE v % mod      \* TLA+ % on a positive modulus is in 0..M-1

Returned(v) == [ok |-> TRUE, v |-> v]
Failed      == [ok |-> FALSE, v |-> 0]            \* error reported to the caller

(* Initial state: reduced initdef, or the reduced restored value when persistent state   *)
(* exists (restore has precedence over initdef).                                         *)
InitFrom(m, i, restored, hasRestored) ==
    /\ mod = m /\ initv = i
    /\ val = IF hasRestored THEN (IF m = NoMod THEN restored ELSE restored % m)
                            ELSE (IF m = NoMod THEN i ELSE i % m)
    /\ ret = Failed

Inc(a)  == val' = Red(val + a) /\ ret' = Returned(val') /\ UNCHANGED conf
Dec(a)  == val' = Red(val - a) /\ ret' = Returned(val') /\ UNCHANGED conf
Put(v)  == val' = Red(v)       /\ ret' = Returned(val') /\ UNCHANGED conf
Reset   == val' = Red(initv)   /\ ret' = Returned(val') /\ UNCHANGED conf
(* 'put' without its value: reported to the caller, nothing changes *)
PutMissing == ret' = Failed /\ UNCHANGED <<val, conf>>

ValidConfig(m) == m # 0                          \* modulo=0 is refused at construction

(* ---- properties ---- *)
InRange        == mod # NoMod => (val >= 0 /\ val < mod)
ReturnIsOutput == ret.ok => ret.v = val
=============================================================================
