SPECIFICATION FairSpec
CONSTANTS Mode = "c"
 Guard = 1
 MaxPuts = 2
 MaxNow = 12
 StopData = TRUE
 Durs = {1}
 MinStop = 0
 MaxLevel = 99
PROPERTY StopCompletes
CHECK_DEADLOCK FALSE
