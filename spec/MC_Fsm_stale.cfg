SPECIFICATION Spec
CONSTANTS ChainUpdatesCtx = FALSE
 ChainMode = "few"
PROPERTY IntermediateInvisible
INVARIANT DataOfCausingEvent
INVARIANT OrderOfActions
INVARIANT ReturnIffAccepted
INVARIANT StateValid
PROPERTY RejectChangesNothing
CHECK_DEADLOCK FALSE
