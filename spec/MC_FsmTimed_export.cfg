SPECIFICATION Spec
CONSTANTS CancelOnExit = TRUE
 FiredTimerCleared = TRUE
 RestoreTimerFirst = TRUE
 StartMode = "fresh"
 MaxNow = 6
 MaxLevel = 14
 MinStop = 4
 Tables = "all"
CONSTRAINT Export
CHECK_DEADLOCK FALSE
