SPECIFICATION Spec
INVARIANT Laws
CHECK_DEADLOCK FALSE
