SPECIFICATION Spec
CONSTANTS CancelOnExit = FALSE
 FiredTimerCleared = TRUE
 RestoreTimerFirst = TRUE
 StartMode = "fresh"
 MaxNow = 3
 MaxLevel = 9
 MinStop = 0
 Tables = "some"
INVARIANT AtMostOnePending
INVARIANT Refines
INVARIANT ReportedIsPending
INVARIANT NothingAfterStop
INVARIANT OnTime
INVARIANT StateValid
INVARIANT NoStaleFire
CONSTRAINT Bound
VIEW View
CHECK_DEADLOCK FALSE
