----------------------------- MODULE Intervals -----------------------------
(* Time / date / date-time intervals (edzed/blocklib/timeinterval.py), property C13.     *)
(* A moment is a tuple of integers: time of day <<h, m, s, us>>, date within a year      *)
(* <<month, day>>, date-time <<y, month, d, h, mi, s, us>>.  An interval is a sequence   *)
(* of ranges [a, b] of moments of one kind.                                              *)
EXTENDS Integers, Sequences, SequencesExt

(* lexicographic order of equally long tuples *)
RECURSIVE LexLess(_, _)
LexLess(p, q) == IF p = <<>> \/ q = <<>> THEN FALSE
                 ELSE IF Head(p) # Head(q) THEN Head(p) < Head(q)
                 ELSE LexLess(Tail(p), Tail(q))
LexLeq(p, q) == p = q \/ LexLess(p, q)

(* the normal form: full-length numeric ranges, sorted *)
RangeLess(r1, r2) == LexLess(r1[1] \o r1[2], r2[1] \o r2[2])
Normal(ranges) == SortSeq(ranges, RangeLess)

(* time-of-day ranges: left-closed, right-open, wrapping around midnight when stop is    *)
(* not after start (equal endpoints = the whole day)                                     *)
InTime(a, p, b) == IF LexLess(a, b) THEN LexLeq(a, p) /\ LexLess(p, b)
                   ELSE LexLeq(a, p) \/ LexLess(p, b)
(* date ranges: inclusive, wrapping around the end of the year *)
InDate(a, p, b) == IF LexLeq(a, b) THEN LexLeq(a, p) /\ LexLeq(p, b)
                   ELSE LexLeq(a, p) \/ LexLeq(p, b)
(* date-time ranges never wrap *)
InDateTime(a, p, b) == LexLeq(a, p) /\ LexLess(p, b)

InRange(kind, a, p, b) == CASE kind = "time" -> InTime(a, p, b)
                            [] kind = "date" -> InDate(a, p, b)
                            [] kind = "dt"   -> InDateTime(a, p, b)
Member(kind, p, ranges) == \E i \in DOMAIN ranges : InRange(kind, ranges[i][1], p, ranges[i][2])

(* ---- laws (checked by MC_Intervals) ---- *)
(* a wrapping time range is the complement of the swapped range *)
WrapComplement(a, b, p) == (a # b) => (InTime(a, p, b) = ~InTime(b, p, a))
(* a wrapping date range [a, b] with b < a covers everything except the days strictly   *)
(* between b and a                                                                       *)
DateWrap(a, b, p) == LexLess(b, a) => (InDate(a, p, b) = ~(LexLess(b, p) /\ LexLess(p, a)))
=============================================================================
