---------------------------- MODULE MC_Lifecycle ----------------------------
(* All compositions of up to N blocks from {plain, async clean-up, async init (fast,     *)
(* slow, hanging until its timeout), main task} x one fault site x abort / cancellation  *)
(* at every step of run_forever.                                                         *)
EXTENDS Integers, Sequences, FiniteSets, TLC
CONSTANTS N, InitTasksCancelledOnExit
VARIABLES cfg, pc, err, cancelPending, simset, started, startOk, stopCalls, sa, tasks, order, now,
          idx, waiting, raised
L == INSTANCE Lifecycle
Kinds == { [async |-> FALSE, init |-> 0, itmo |-> 0, main |-> FALSE],      \* plain
           [async |-> TRUE,  init |-> 0, itmo |-> 0, main |-> FALSE],      \* OutputAsync-like
           [async |-> TRUE,  init |-> 1, itmo |-> 3, main |-> FALSE],      \* InitAsync, quick
           [async |-> TRUE,  init |-> 9, itmo |-> 2, main |-> FALSE],      \* InitAsync, hangs till timeout
           [async |-> TRUE,  init |-> 0, itmo |-> 0, main |-> TRUE] }      \* Repeat / ValuePoll-like
Faults == {"none", "start", "init_regular", "eval", "main", "stop", "stop_async", "initasync"}
Cfgs == {c \in [1..N -> [async : BOOLEAN, init : {0, 1, 9}, itmo : {0, 2, 3}, main : BOOLEAN, fault : Faults]] :
           /\ \A b \in 1..N : [async |-> c[b].async, init |-> c[b].init, itmo |-> c[b].itmo, main |-> c[b].main] \in Kinds
           /\ Cardinality({b \in 1..N : c[b].fault # "none"}) <= 1
           /\ \A b \in 1..N : (c[b].fault = "main" => c[b].main) /\ (c[b].fault = "stop_async" => c[b].async)
                              /\ (c[b].fault = "initasync" => c[b].init > 0)}
Init == \E c \in Cfgs : L!LInit(c)
Spec == Init /\ [][L!LNext]_L!lvars
StoppedExactlyOnce == L!StoppedExactlyOnce
AsyncFirst == L!AsyncFirst
NothingLeft == L!NothingLeft
FirstWins == L!FirstWins
NeverReadyAgain == L!NeverReadyAgain
ReadyOnlyWhileRunning == L!ReadyOnlyWhileRunning
Terminates == <>(pc = "done")
=============================================================================
