----------------------------- MODULE MC_Repeat -----------------------------
(* Two Repeat blocks in series (ext -> R1 -> R2 -> probe) on a tick grid: arrivals of    *)
(* matching and other events before / at / after repetitions, all counts, stop.          *)
EXTENDS Integers, Sequences, TLC, Json
CONSTANTS MaxNow, MaxLevel, MinStop
VARIABLES c1, c2, s1, s2, now, free, sent1, sent2, got, stopped, hist
R == INSTANCE Repeat
vars == <<c1, c2, s1, s2, now, free, sent1, sent2, got, stopped, hist>>
View == <<c1, c2, s1, s2, now, free, sent1, sent2, got, stopped>>
NONE == R!NONE
Counts == {NONE, 0, 1, 2}
Init == /\ c1 \in [interval : {2, 3}, count : Counts] /\ c2 \in [interval : {1, 2}, count : Counts]
        /\ s1 = R!Init0 /\ s2 = R!Init0 /\ now = 0 /\ free = 0
        /\ sent1 = NONE /\ sent2 = NONE     \* time of the last event sent by R1 / R2
        /\ got = <<>>                        \* what the probe received last
        /\ stopped = FALSE /\ hist = <<>>

(* R2 receives d (sent by R1) and forwards it to the probe at once *)
Into2(d) == /\ s2' = R!Recv(c2, s2, now, d)
            /\ got' = R!Sent(2, d, 0) /\ sent2' = now

Ext == /\ ~stopped
       /\ \E m \in BOOLEAN, tag \in {1, 2} :
            /\ hist' = Append(hist, [op |-> "ext", t |-> now, m |-> m, tag |-> tag])
            /\ IF m THEN LET d == [tag |-> tag, val |-> tag, x |-> 0, src |-> 9] IN
                         /\ s1' = R!Recv(c1, s1, now, d) /\ sent1' = now
                         /\ Into2([tag |-> d.tag, val |-> d.val, x |-> d.x, src |-> 1])
                    ELSE UNCHANGED <<s1, s2, sent1, sent2, got>>      \* other types are ignored
       /\ UNCHANGED <<c1, c2, now, free, stopped>>
Tick1 == /\ ~stopped /\ s1.due # NONE /\ s1.due <= now
         /\ s1' = R!Tick(c1, s1, now) /\ sent1' = now
         /\ Into2([tag |-> s1.last.tag, val |-> s1.last.val, x |-> s1.last.x, src |-> 1])
         /\ UNCHANGED <<c1, c2, now, free, stopped, hist>>
Tick2 == /\ ~stopped /\ s2.due # NONE /\ s2.due <= now
         /\ s2' = R!Tick(c2, s2, now) /\ sent2' = now
         /\ got' = R!Sent(2, s2.last, s2.n + 1)
         /\ UNCHANGED <<c1, c2, s1, now, free, sent1, stopped, hist>>
Advance == /\ now < MaxNow
           /\ (stopped \/ ((s1.due = NONE \/ s1.due > now) /\ (s2.due = NONE \/ s2.due > now)))
           /\ now' = now + 1 /\ UNCHANGED <<c1, c2, s1, s2, free, sent1, sent2, got, stopped, hist>>
(* the event loop is kept busy for k ticks by something else: nothing runs meanwhile, a *)
(* repetition that became due is sent as soon as the loop is free again                  *)
Stall == /\ ~stopped /\ now + 2 <= MaxNow
         /\ ((s1.due = NONE \/ s1.due > now) /\ (s2.due = NONE \/ s2.due > now))
         /\ \E k \in {2, 3} : /\ now' = now + k /\ free' = now + k
                               /\ hist' = Append(hist, [op |-> "stall", t |-> now, m |-> FALSE, tag |-> k])
         /\ UNCHANGED <<c1, c2, s1, s2, sent1, sent2, got, stopped>>
Stop == /\ ~stopped /\ now >= MinStop /\ stopped' = TRUE
        /\ hist' = Append(hist, [op |-> "stop", t |-> now, m |-> FALSE, tag |-> 0])
        /\ UNCHANGED <<c1, c2, s1, s2, now, free, sent1, sent2, got>>
Next == Ext \/ Tick1 \/ Tick2 \/ Advance \/ Stall \/ Stop
Spec == Init /\ [][Next]_vars

CountBound == R!CountBound(c1, s1) /\ R!CountBound(c2, s2)
OutputIsLastRepeat == R!OutputIsLastRepeat(s1) /\ R!OutputIsLastRepeat(s2)
(* pace: the next repetition is exactly one interval after the last event sent *)
Pace == /\ (s1.due # NONE => s1.due = sent1 + c1.interval)
        /\ (s2.due # NONE => s2.due = sent2 + c2.interval)
        /\ (~stopped => (s1.due = NONE \/ s1.due >= now \/ now = free)
                         /\ (s2.due = NONE \/ s2.due >= now \/ now = free))
(* a newer event restarts the numbering; the probe always sees the latest data *)
RestartOnNew == [][(s1'.last # s1.last) => s1'.n = 0]_vars
ProbeSeesLatest == got # <<>> => (got.tag = s2.last.tag /\ got.rep = s2.n /\ got.src = 2 /\ got.orig = 1)
SilentAfterStop == [][stopped => UNCHANGED <<s1, s2, got>>]_vars
Bound == TLCGet("level") <= MaxLevel
Export == IF stopped \/ TLCGet("level") >= MaxLevel
          THEN PrintT(<<"EXPORT", ToJson([c1 |-> c1, c2 |-> c2, hist |-> hist, now |-> now])>>) /\ FALSE
          ELSE TRUE
=============================================================================
