SPECIFICATION Spec
CONSTANTS Mode = "w"
 Guard = 1
 MaxPuts = 3
 MaxNow = 9
 StopData = TRUE
 Durs = {1, 2}
 MinStop = 0
 MaxLevel = 40
INVARIANT M1_EveryPutResolved
INVARIANT M2_OneAtATime
INVARIANT M3w_ArrivalOrder
INVARIANT M3c_CancelOnlyForNewer
INVARIANT M3s_StartAtOnce
INVARIANT M4_OutputCountsRuns
INVARIANT M5_GuardRespected
INVARIANT M6_StopDataLast
INVARIANT Quiet
CONSTRAINT Bound
VIEW View
CHECK_DEADLOCK FALSE
