---------------------------- MODULE PersistTrace ----------------------------
(* Trace specification for persistent state (C06).                                        *)
(* hdr: blocks[b] = [persistent, sync], pre (the storage before the run: snapshot per     *)
(* block), pre_ts.  Snapshots are [st, due, sd] (ABSENT = no entry).  Lines:              *)
(*   init(store, live)              after wait_init()                                     *)
(*   event(b, outcome, store, live) outcome: ok (handled, accepted or rejected) |         *)
(*                                  reported (unknown type: only the caller is told) |    *)
(*                                  fatal (the handler failed)                            *)
(*   fire(b, store, live)           a timer of block b expired and was handled            *)
(*   self(b, store, live)           block b changed its state by its own activity          *)
(*   abort(store)                   the simulation was asked to stop                       *)
(*   stop(kind, store, ts, live)    kind: regular | failed_start                          *)
(*   restart(src, nowr, exps, restored, outs, entry, fresh, stale_removed, reserved_kept)  *)
(*                                  the application restarted from the storage as it was  *)
(*                                  at line src, at wall time nowr                        *)
EXTENDS TraceLib
Blocks == {}
Sync == {}
PersistentAtStart == {}
DisableOnError == "always"
VARIABLES phase, live, store, ts, pers, startOk, now, failed, dirty, hist, tid, l
P == INSTANCE Persist
vars == <<phase, live, store, ts, pers, startOk, now, failed, dirty, hist>>
H(t) == Traces[t].hdr
Ev(t) == Traces[t].ev
B == DOMAIN H(tid).blocks
TraceInit == /\ tid \in 1..NTraces /\ l = 1 /\ phase = "new"
             /\ live = Traces[tid].hdr.pre /\ store = Traces[tid].hdr.pre /\ ts = Traces[tid].hdr.pre_ts
             /\ pers = {b \in DOMAIN Traces[tid].hdr.blocks : Traces[tid].hdr.blocks[b].persistent}
             /\ startOk = FALSE /\ now = 0 /\ failed = {} /\ dirty = {} /\ hist = <<>>
Rec(st, t) == [store |-> st, ts |-> t]
(* the output that corresponds to an internal state *)
OutOf(kind, s) == CASE kind = "timer" -> (IF s.st = 2 THEN 1 ELSE 0)
                    [] kind = "inputexp" -> (IF s.st = 2 THEN s.sd ELSE 99)
                    [] kind = "td" -> (IF s.st \in {1, 3, 4} THEN 1 ELSE 0)   \* menu of configurations, see the driver
                    [] kind = "ts" -> (IF s.st \in {2, 4} THEN 1 ELSE 0)
                    [] OTHER -> s.st
(* what get_state() reports is the state the block is really in: its output is the one of that state *)
(* ... and a timer it reports is a pending one: never one that was due in the past (a state saved    *)
(* with such an expiry would be discarded as expired by the next start although the block is in it)  *)
Faithful(e) == \A b \in B : (e.live[b].st # -9 /\ b \notin failed) =>
                   /\ e.outc[b] = OutOf(H(tid).blocks[b].kind, e.live[b])
                   /\ (e.live[b].due = P!NONE \/ e.live[b].due >= e.t)
(* the block whose timer has just fired does not report that timer any more, whether the timed     *)
(* event was accepted or not                                                                        *)
FiredGone(e) == e.live[e.b].due = P!NONE \/ e.live[e.b].due > e.t
InitLine(e) == /\ phase = "new" /\ phase' = "running" /\ startOk' = TRUE /\ Faithful(e)
               /\ \A b \in B : e.store[b] = (IF b \in pers THEN e.live[b] ELSE store[b])  \* saved after initialisation
               /\ store' = e.store /\ live' = e.live /\ hist' = Append(hist, Rec(e.store, ts))
               /\ UNCHANGED <<ts, pers, now, failed, dirty>>
Handled(e) == /\ phase = "running" /\ Faithful(e)
              /\ \A b \in B : e.store[b] = (IF b = e.b /\ b \in pers /\ H(tid).blocks[b].sync THEN e.live[b] ELSE store[b])
              /\ store' = e.store /\ live' = e.live /\ hist' = Append(hist, Rec(e.store, ts))
              /\ dirty' = dirty \ {e.b}
              /\ UNCHANGED <<phase, ts, pers, startOk, now, failed>>
EventLine(e) ==
    \/ e.outcome = "ok" /\ Handled(e)
    \/ /\ e.outcome = "reported" /\ phase = "running"            \* nothing happened, nothing is written
       /\ e.store = store /\ e.live = live
       /\ hist' = Append(hist, Rec(e.store, ts)) /\ UNCHANGED <<phase, live, store, ts, pers, startOk, now, failed, dirty>>
    \/ /\ e.outcome = "fatal" /\ phase \in {"running", "failing"} /\ phase' = "failing"
       /\ e.store = store                                        \* no save after a handler error
       /\ pers' = pers \ {e.b} /\ failed' = failed \cup {e.b}
       /\ live' = e.live /\ hist' = Append(hist, Rec(e.store, ts))
       /\ UNCHANGED <<store, ts, startOk, now, dirty>>
(* the block changed its state by itself (not in an event handler): nothing is written;  *)
(* the regular stop will save it                                                          *)
SelfLine(e) == /\ phase = "running" /\ e.store = store /\ Faithful(e)
               /\ \A b \in B : b # e.b => e.live[b] = live[b]
               /\ live' = e.live /\ dirty' = dirty \cup {e.b}
               /\ hist' = Append(hist, Rec(e.store, ts)) /\ UNCHANGED <<phase, store, ts, pers, startOk, now, failed>>
(* the simulation was asked to stop (the clean-up has not run yet) *)
AbortLine(e) == /\ phase = "running" /\ phase' = "failing" /\ e.store = store
                /\ hist' = Append(hist, Rec(e.store, ts)) /\ UNCHANGED <<live, store, ts, pers, startOk, now, failed, dirty>>
StopLine(e) ==
    /\ phase' = "stopped"
    /\ IF e.kind = "failed_start"
       THEN /\ phase = "new" /\ e.store = store /\ e.ts = ts      \* nothing is written
            /\ UNCHANGED <<store, ts>>
       ELSE /\ IF e.kind = "init_stop" THEN phase = "new"      \* a regular stop during the initialisation:
                                                              \* the blocks were started, so all is saved
                                    ELSE phase \in {"running", "failing"}
            \* all persistent blocks (live = their states when the stop began); block sev handled one
            \* more event while the blocks were being stopped: with sync_state that state is saved too
            /\ \A b \in B : e.store[b] = (IF b \notin pers THEN store[b]
                                           ELSE IF b = e.sev /\ H(tid).blocks[b].sync THEN e.after[b]
                                           ELSE e.live[b])
            /\ e.ts = e.t                                                            \* + the stop time stamp
            /\ store' = e.store /\ ts' = e.ts
    /\ hist' = Append(hist, Rec(e.store, e.ts)) /\ live' = e.live
    /\ UNCHANGED <<pers, startOk, now, failed, dirty>>
RestartLine(e) ==
    /\ e.src \in DOMAIN hist
    /\ LET snap == hist[e.src] IN
       \A b \in B :
          IF e.nopers \/ P!Discarded(snap.store[b], snap.ts, e.exps[b], e.nowr)
          THEN e.restored[b] = e.fresh[b]                           \* normal initialisation instead
          ELSE /\ e.restored[b] = P!Restored(snap.store[b])         \* same state, same absolute expiry
               /\ e.outs[b] = OutOf(H(tid).blocks[b].kind, snap.store[b])   \* the corresponding output
               /\ e.entry[b] = 0                                   \* no entry actions again
    /\ e.stale_removed /\ e.reserved_kept
    /\ hist' = Append(hist, Rec(store, ts)) /\ UNCHANGED <<phase, live, store, ts, pers, startOk, now, failed, dirty>>
Step == /\ l <= Len(Ev(tid))
        /\ LET e == Ev(tid)[l] IN
             \/ e.ev = "init" /\ InitLine(e)
             \/ e.ev = "event" /\ EventLine(e)
             \/ e.ev = "fire" /\ Handled(e) /\ FiredGone(e)
             \/ e.ev = "self" /\ SelfLine(e)
             \/ e.ev = "abort" /\ AbortLine(e)
             \/ e.ev = "stop" /\ StopLine(e)
             \/ e.ev = "restart" /\ RestartLine(e)
        /\ l' = l + 1 /\ UNCHANGED tid
TraceSpec == TraceInit /\ [][Step]_<<vars, tid, l>>
ASSUME InitRegs
Book == Reach(tid, l, <<phase, store, ts, pers>>)
LenOf(t) == Len(Ev(t))
Accepted == AcceptedAll(LenOf)
=============================================================================
