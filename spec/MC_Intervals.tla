---------------------------- MODULE MC_Intervals ----------------------------
EXTENDS Integers, Sequences, TLC
I == INSTANCE Intervals
VARIABLE done
Times == {<<h, m, 0, us>> : h \in {0, 1, 23}, m \in {0, 59}, us \in {0, 999999}}
Dates == {<<mo, d>> : mo \in {1, 2, 12}, d \in {1, 28, 29, 31}}
DTs == {<<y, 1, d, h, 0, 0, us>> : y \in {2024, 2025}, d \in {1, 2}, h \in {0, 23}, us \in {0, 1}}
TimeLaws == \A a \in Times, b \in Times, p \in Times :
               /\ I!WrapComplement(a, b, p)
               /\ (a = b => I!InTime(a, p, b))                       \* equal endpoints: whole day
               /\ I!InTime(a, a, b) /\ (a # b => ~I!InTime(a, b, b))  \* left-closed, right-open
DateLaws == \A a \in Dates, b \in Dates, p \in Dates :
               /\ I!DateWrap(a, b, p)
               /\ I!InDate(a, a, b) /\ I!InDate(a, b, b)             \* inclusive
DTLaws == \A a \in DTs, b \in DTs, p \in DTs :
               /\ (I!LexLeq(b, a) => ~I!InDateTime(a, p, b))         \* never wraps
               /\ (I!LexLess(a, b) => I!InDateTime(a, a, b) /\ ~I!InDateTime(a, b, b))
NormalLaws == \A a \in Dates, b \in Dates, c \in Dates :
               LET r == <<<<a, b>>, <<c, a>>, <<b, c>>>> n == I!Normal(r) IN
               /\ I!Normal(n) = n /\ Len(n) = 3
               /\ \A i \in 1..2 : ~I!RangeLess(n[i + 1], n[i])
               /\ \A p \in Dates : I!Member("date", p, r) = I!Member("date", p, n)
Laws == TimeLaws /\ DateLaws /\ DTLaws /\ NormalLaws
Init == done = FALSE
Next == done' = TRUE
Spec == Init /\ [][Next]_done
=============================================================================
