SPECIFICATION Spec
CONSTANTS ReloadRecalcs = TRUE
 ResetSurvivesEmpty = TRUE
 WithY = TRUE
INVARIANT OutputCorrect
INVARIANT JumpNeverKills
CHECK_DEADLOCK FALSE
