--------------------------- MODULE LifecycleTrace ---------------------------
(* Monitor for the simulation life cycle (C08, C09, C14).                                 *)
(* hdr: blocks[b] = [async (effective asynchronous clean-up), tmo (stop_timeout, ticks)], *)
(*      api ("run" | "forever").                                                          *)
(* lines (t = virtual time in ticks):                                                     *)
(*   begin                      - run_forever() was entered (the simulation task exists)  *)
(*   start(b, ok)               - start() of block b returned / raised                    *)
(*   fault(e, fatal)            - an injected fault with code e fired (fatal = it is one  *)
(*                                of the kinds that must stop the simulation)             *)
(*   abort(e)                   - Circuit.abort() was called with an error of code e      *)
(*                                (0 = a cancellation: shutdown, SIGTERM, control event)  *)
(*   supfail(e)                 - a supporting task of edzed.run() raised                 *)
(*   ext(outcome, deliv, src, got, valok, restok) - ExtEvent.send() was attempted         *)
(*   stop(b)  sa_begin(b)  sa_end(b)                                                      *)
(*   finished(exc, errc)        - run_forever() ended raising exc; Circuit.error = errc   *)
(*   runres(code) shutres(code) - what edzed.run() / a later shutdown() did (-1: returned)*)
(*   after(ready, restart, addblock, tasks, timers)                                       *)
EXTENDS TraceLib
VARIABLES simset, err, supf, started, failedstart, stopcnt, sast, sabeg, stopt0, phase, doomed, sdrun, sdwant, now,
          sigt,          \* time of a SIGTERM that was just delivered (NONE otherwise): the abort follows at once
          tid, l
vars == <<simset, err, supf, started, failedstart, stopcnt, sast, sabeg, stopt0, phase, doomed, sdrun, sdwant, now, sigt>>
H(t) == Traces[t].hdr
Ev(t) == Traces[t].ev
NONE == 0 - 1
B == DOMAIN H(tid).blocks
TraceInit == /\ tid \in 1..NTraces /\ l = 1
             /\ simset = FALSE /\ err = NONE /\ supf = NONE /\ started = {} /\ failedstart = {}
             /\ stopcnt = [b \in DOMAIN Traces[tid].hdr.blocks |-> 0]
             /\ sast = [b \in DOMAIN Traces[tid].hdr.blocks |-> "no"]
             /\ sabeg = [b \in DOMAIN Traces[tid].hdr.blocks |-> 0]
             /\ stopt0 = NONE /\ phase = "pre" /\ doomed = FALSE /\ sdrun = {} /\ sdwant = {} /\ now = 0 /\ sigt = NONE
First(e) == IF err = NONE THEN e ELSE err
Ready == simset /\ err = NONE /\ phase # "finished"
ExtPrefix == <<95, 101, 120, 116, 95>>                      \* "_ext_"
HasPrefix(s) == Len(s) >= 5 /\ SubSeq(s, 1, 5) = ExtPrefix
ExpectedSource(src) == IF src = <<0 - 1>> THEN ExtPrefix              \* no source given
                       ELSE IF HasPrefix(src) THEN src ELSE ExtPrefix \o src
Same == UNCHANGED <<simset, err, supf, started, failedstart, stopcnt, sast, sabeg, stopt0, phase, doomed, sdrun, sdwant>>

Begin(e) == /\ phase = "pre" /\ ~simset /\ simset' = TRUE /\ phase' = "live"
            /\ UNCHANGED <<err, supf, started, failedstart, stopcnt, sast, sabeg, stopt0, doomed, sdrun, sdwant>>
Start(e) == /\ phase = "live" /\ e.b \notin started \cup failedstart
            /\ IF e.ok THEN started' = started \cup {e.b} /\ UNCHANGED failedstart
                       ELSE failedstart' = failedstart \cup {e.b} /\ UNCHANGED started
            /\ UNCHANGED <<simset, err, supf, stopcnt, sast, sabeg, stopt0, phase, doomed, sdrun, sdwant>>
(* the first error delivered wins; a fatal fault is an error delivered to the simulator *)
(* doom: a synchronous initialisation routine failed while an external event was being   *)
(* delivered (early initialisation): the caller got the exception, the block can no      *)
(* longer be initialised and the start-up must fail - with whatever error                *)
Fault(e) == /\ err' = (IF e.fatal /\ simset /\ phase = "live" THEN First(e.e) ELSE err)
            /\ doomed' = (doomed \/ e.doom)
            /\ UNCHANGED <<simset, supf, started, failedstart, stopcnt, sast, sabeg, stopt0, phase, sdrun, sdwant>>
(* a control event ('shutdown' / 'abort' sent to the control block) was delivered: the      *)
(* simulator has received the stop request when the sender's event() returns              *)
CtrlReq(e) == (err # NONE \/ doomed) /\ Same
(* wait_init() returned normally: never in a doomed run (a failed synchronous              *)
(* initialisation routine is not tried again)                                             *)
Inited(e) == ~doomed /\ Same
(* (in a doomed run the clean-up may already be in progress because of an error that no  *)
(* line announced: an abort() arriving then comes too late)                              *)
Abort(e) == /\ err' = (IF phase = "finished" \/ (doomed /\ stopt0 # NONE) THEN err ELSE First(e.e))
            /\ UNCHANGED <<simset, supf, started, failedstart, stopcnt, sast, sabeg, stopt0, phase, doomed, sdrun, sdwant>>
(* shutdown() was called (by another task) and has made its request: a normal stop *)
StopReq(e) == /\ err' = (IF phase = "finished" THEN err ELSE First(0))
              /\ UNCHANGED <<simset, supf, started, failedstart, stopcnt, sast, sabeg, stopt0, phase, doomed, sdrun, sdwant>>
SupFail(e) == /\ supf' = (IF supf = NONE THEN e.e ELSE supf)
              /\ UNCHANGED <<simset, err, started, failedstart, stopcnt, sast, sabeg, stopt0, phase, doomed, sdrun, sdwant>>
(* external events enter only a running circuit and are marked as external *)
(* (a doomed run stops because of an error that no line announced: once its clean-up    *)
(* has begun the circuit is not ready; before that either answer is possible)            *)
Delivered(e) == /\ e.outcome = "delivered" /\ e.deliv /\ e.retok                  \* the handler's result is returned
                /\ e.got = ExpectedSource(e.src) /\ e.valok /\ e.restok
Refused(e) == e.outcome = "invalid" /\ ~e.deliv
(* initfail: the synchronous initialisation that the event triggered failed; the caller    *)
(* got that exception, nothing was delivered (the fault line just before made the run     *)
(* doomed)                                                                                *)
Ext(e) == /\ IF e.outcome = "initfail" THEN (err # NONE \/ doomed) /\ ~e.deliv
             ELSE IF ~Ready \/ (doomed /\ stopt0 # NONE) THEN Refused(e)
             ELSE IF doomed THEN Delivered(e) \/ Refused(e)
             ELSE Delivered(e)
          /\ Same
(* an output block ran its function / coroutine; sd = for its stop_data: that is the     *)
(* block's last action, delivered once, at stop                                          *)
OutRun(e) == /\ e.b \notin sdrun
             /\ (e.sd => (H(tid).blocks[e.b].sd /\ stopcnt[e.b] = 1))
             /\ sdrun' = (IF e.sd THEN sdrun \cup {e.b} ELSE sdrun)
             /\ UNCHANGED <<simset, err, supf, started, failedstart, stopcnt, sast, sabeg, stopt0, phase, doomed, sdwant>>
(* user-defined blocks cannot have names beginning with an underscore, and no block name *)
(* (= the 'source' of its internal events) begins with the external prefix               *)
MkName(e) == /\ (Len(e.name) >= 1 /\ e.name[1] = 95) => e.outcome = "refused"
             /\ (Len(e.name) >= 1 /\ e.name[1] # 95) => e.outcome = "created"
             /\ Same
BlockName(e) == ~HasPrefix(e.name) /\ Same
(* wrong parameters / unknown type: only reported to the caller *)
ExtBad(e) == /\ IF ~Ready \/ (doomed /\ stopt0 # NONE) THEN e.outcome = "invalid"
                ELSE IF doomed THEN e.outcome \in {"reported", "invalid"}
                ELSE e.outcome = "reported"
             /\ Same
Stop(e) == /\ phase = "live" /\ (err # NONE \/ doomed)                      \* clean-up only after an error / stop request
           /\ e.b \in started /\ stopcnt[e.b] = 0                   \* exactly once, only started blocks
           /\ (~H(tid).blocks[e.b].async =>                         \* asynchronous clean-up comes first
                 \A a \in started : H(tid).blocks[a].async =>
                     (stopcnt[a] = 1 /\ (sast[a] = "done" \/ (sast[a] = "running" /\ e.t >= sabeg[a] + H(tid).blocks[a].tmo))))
           /\ stopcnt' = [stopcnt EXCEPT ![e.b] = 1]
           /\ sdwant' = (IF H(tid).blocks[e.b].sd /\ e.inited THEN sdwant \cup {e.b} ELSE sdwant)   \* an initialised output block
           /\ stopt0' = (IF stopt0 = NONE THEN e.t ELSE stopt0)
           /\ UNCHANGED <<simset, err, supf, started, failedstart, sast, sabeg, phase, doomed, sdrun>>
MaxTmo == LET S == {H(tid).blocks[b].tmo : b \in B} IN IF S = {} THEN 0 ELSE CHOOSE m \in S : \A x \in S : x <= m
SaBegin(e) == /\ phase = "live" /\ H(tid).blocks[e.b].async /\ e.b \in started /\ sast[e.b] = "no"
              /\ \A a \in started : H(tid).blocks[a].async => stopcnt[a] = 1     \* after stop() of all of them
              /\ sast' = [sast EXCEPT ![e.b] = "running"] /\ sabeg' = [sabeg EXCEPT ![e.b] = e.t]
              /\ UNCHANGED <<simset, err, supf, started, failedstart, stopcnt, stopt0, phase, doomed, sdrun, sdwant>>
(* blocking (not awaiting) code of the clean-up routines of this run: a timeout cannot    *)
(* interrupt it, it only takes effect when the loop gets control again; plus the time     *)
(* cancelled routines take to wind up                                                     *)
Busy == H(tid).busy
SaEnd(e) == /\ sast[e.b] = "running" /\ sast' = [sast EXCEPT ![e.b] = "done"]
            /\ e.t <= sabeg[e.b] + MaxTmo + Busy                                      \* bounded by the (largest) stop_timeout
            /\ UNCHANGED <<simset, err, supf, started, failedstart, stopcnt, sabeg, stopt0, phase, doomed, sdrun, sdwant>>
Finished(e) == /\ phase = "live" /\ phase' = "finished"
               /\ IF err = NONE THEN doomed /\ e.exc > 0 /\ e.errc = e.exc /\ err' = e.exc
                  ELSE e.exc = err /\ e.errc = err /\ UNCHANGED err  \* the first error is the one reported
               /\ \A b \in B : stopcnt[b] = (IF b \in started THEN 1 ELSE 0)
               /\ \A b \in sdwant : sast[b] \in {"no", "done"} => b \in sdrun     \* stop_data was delivered
               /\ \A b \in B : sast[b] # "running"          \* every clean-up routine has ended (a timed-out
                                                            \* one was cancelled AND awaited)
               /\ (stopt0 # NONE => e.t <= stopt0 + MaxTmo + Busy)
               /\ UNCHANGED <<simset, supf, started, failedstart, stopcnt, sast, sabeg, stopt0, doomed, sdrun, sdwant>>
RunRes(e) == /\ phase = "finished"
             /\ e.code = (IF err # 0 THEN err ELSE IF supf # NONE THEN supf ELSE NONE)
             /\ e.left = 0             \* no task started by run() is pending when it returns
             /\ Same
ShutRes(e) == /\ phase = "finished" /\ e.code = (IF err = 0 THEN NONE ELSE err) /\ Same
After(e) == /\ phase = "finished"
            /\ ~e.ready /\ e.restart = "invalid" /\ e.addblock = "invalid"     \* stays stopped, frozen
            /\ e.tasks = 0 /\ e.timers = 0                                      \* nothing outlives the simulation
            /\ e.errc = err                                                     \* later aborts do not replace it
            /\ Same
Step == /\ l <= Len(Ev(tid))
        /\ LET e == Ev(tid)[l] IN
             /\ e.t >= now /\ now' = e.t
             \* a SIGTERM delivered while the loop was idle: the very next thing is the abort, at once
             /\ sigt' = (IF e.ev = "sigsent" THEN e.t ELSE NONE)
             /\ (sigt # NONE => (e.ev = "abort" /\ e.t = sigt))
             /\ \/ e.ev = "begin" /\ Begin(e)
                \/ e.ev = "sigsent" /\ Same
                \/ e.ev = "start" /\ Start(e)
                \/ e.ev = "fault" /\ Fault(e)
                \/ e.ev = "inited" /\ Inited(e)
                \/ e.ev = "ctrlreq" /\ CtrlReq(e)
                \/ e.ev = "abort" /\ Abort(e)
                \/ e.ev = "supfail" /\ SupFail(e)
                \/ e.ev = "stopreq" /\ StopReq(e)
                \/ e.ev = "ext" /\ Ext(e)
                \/ e.ev = "extbad" /\ ExtBad(e)
                \/ e.ev = "mkname" /\ MkName(e)
                \/ e.ev = "blockname" /\ BlockName(e)
                \/ e.ev = "outrun" /\ OutRun(e)
                \/ e.ev = "stop" /\ Stop(e)
                \/ e.ev = "sa_begin" /\ SaBegin(e)
                \/ e.ev = "sa_end" /\ SaEnd(e)
                \/ e.ev = "finished" /\ Finished(e)
                \/ e.ev = "runres" /\ RunRes(e)
                \/ e.ev = "shutres" /\ ShutRes(e)
                \/ e.ev = "after" /\ After(e)
        /\ l' = l + 1 /\ UNCHANGED tid
TraceSpec == TraceInit /\ [][Step]_<<vars, tid, l>>
ASSUME InitRegs
Book == Reach(tid, l, <<simset, err, supf, started, stopcnt, sast, phase, now>>)
LenOf(t) == Len(Ev(t))
Accepted == AcceptedAll(LenOf)
=============================================================================
