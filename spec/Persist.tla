------------------------------- MODULE Persist -------------------------------
(* Persistent state (edzed/addons.py: AddonPersistence; edzed/simulator.py:              *)
(* _check_persistent_data, _init_sblocks_sync_2, run_forever; edzed/fsm.py:              *)
(* get_state / _restore_state), property C06.                                            *)
(*                                                                                       *)
(* A snapshot of a block's internal state is [st, due, sd]: st = the state (FSM state    *)
(* number or the value of a Counter / Input), due = absolute expiry time of the FSM      *)
(* timer or NONE, sd = additional state data.  Times are wall-clock ticks.               *)
EXTENDS Integers, Sequences, FiniteSets

NONE == 0 - 1
NOEXP == 9001                \* expiration=None
ABSENT == [st |-> 0 - 9, due |-> NONE, sd |-> 0]

(* ---- restart: what a block is restored to ---- *)
(* the saved state is too old (expiration is measured since the program stop) *)
Expired(ts, exp, nowR) == exp # NOEXP /\ (exp <= 0 \/ (ts # NONE /\ ts + exp < nowR))
(* the timer of the saved state ran out during the downtime *)
TimerRanOut(snap, nowR) == snap.due # NONE /\ snap.due <= nowR
Discarded(snap, ts, exp, nowR) == snap = ABSENT \/ Expired(ts, exp, nowR) \/ TimerRanOut(snap, nowR)
(* a state that is not discarded comes back unchanged: same state, same absolute expiry *)
Restored(snap) == snap

(* ---- the storage while the application runs (model-checked in MC_Persist) ---- *)
CONSTANTS Blocks, Sync, PersistentAtStart,
          DisableOnError      \* "always" = the code; deviations: "never" = a block whose handler failed is still
                              \* saved at stop; "first" = only the block whose error stopped the simulation is excluded
VARIABLES phase, live, store, ts, pers, startOk, now, failed,
          dirty               \* blocks whose state changed by their own activity (not by an event) since the last save
pvars == <<phase, live, store, ts, pers, startOk, now, failed, dirty>>

Snap(b) == live[b]
PInit == /\ phase = "new" /\ live = [b \in Blocks |-> ABSENT] /\ store = [b \in Blocks |-> ABSENT]
         /\ ts = NONE /\ pers = PersistentAtStart /\ startOk = FALSE /\ now = 0 /\ failed = {} /\ dirty = {}
(* start-up: a failing start() ends the run before anything is initialised *)
StartFails == /\ phase = "new" /\ phase' = "stopped" /\ UNCHANGED <<live, store, ts, pers, startOk, now, failed, dirty>>
InitDone == /\ phase = "new" /\ phase' = "running" /\ startOk' = TRUE
            /\ \E l \in [Blocks -> [st : {1, 2}, due : {NONE, 3}, sd : {0}]] :
                 /\ live' = l
                 /\ store' = [b \in Blocks |-> IF b \in pers THEN l[b] ELSE store[b]]   \* saved after initialisation
            /\ UNCHANGED <<ts, pers, now, failed, dirty>>
(* an event handled without error (accepted or rejected): the state is saved afterwards *)
EventOk(b) == /\ phase = "running"
              /\ \E s \in [st : {1, 2}, due : {NONE, now + 2}, sd : {0, 1}] :
                   /\ live' = [live EXCEPT ![b] = s]
                   /\ store' = IF b \in pers /\ b \in Sync THEN [store EXCEPT ![b] = s] ELSE store
              /\ dirty' = dirty \ {b}
              /\ UNCHANGED <<phase, ts, pers, startOk, now, failed>>
(* the state changes by the block's own activity (a timer, a reading of a gauge): nothing *)
(* is saved then; the regular stop saves it                                               *)
SelfChange(b) == /\ phase = "running"
                 /\ \E s \in [st : {1, 2}, due : {NONE}, sd : {0, 1}] : live' = [live EXCEPT ![b] = s]
                 /\ dirty' = dirty \cup {b}
                 /\ UNCHANGED <<phase, store, ts, pers, startOk, now, failed>>
(* the handler fails: the simulation stops, the block's state is suspect: never saved again *)
(* (also while the simulation is already stopping - after a stop request or an error    *)
(* elsewhere - until the clean-up saves the states)                                      *)
EventFails(b) == /\ phase \in {"running", "failing"} /\ phase' = "failing"
                 /\ pers' = (IF DisableOnError = "always" \/ (DisableOnError = "first" /\ phase = "running")
                             THEN pers \ {b} ELSE pers)
                 /\ failed' = failed \cup {b}
                 /\ \E s \in [st : {1, 2}, due : {NONE}, sd : {7}] : live' = [live EXCEPT ![b] = s]   \* possibly corrupted
                 /\ UNCHANGED <<store, ts, startOk, now, dirty>>
(* a stop request / an error that is not a handler error of a persistent block *)
StopReq == /\ phase = "running" /\ phase' = "failing" /\ UNCHANGED <<live, store, ts, pers, startOk, now, failed, dirty>>
Tick == /\ phase = "running" /\ now < 4 /\ now' = now + 1 /\ UNCHANGED <<phase, live, store, ts, pers, startOk, failed, dirty>>
(* regular stop / stop after an error: all (still) persistent blocks + the time stamp *)
Stop == /\ phase \in {"running", "failing"} /\ phase' = "stopped"
        /\ IF startOk THEN /\ store' = [b \in Blocks |-> IF b \in pers THEN live[b] ELSE store[b]]
                           /\ ts' = now
                      ELSE UNCHANGED <<store, ts>>
        /\ UNCHANGED <<live, pers, startOk, now, failed, dirty>>
PNext == StartFails \/ InitDone \/ Tick \/ StopReq \/ Stop \/ \E b \in Blocks : EventOk(b) \/ EventFails(b) \/ SelfChange(b)

(* after initialisation and after every handled event the storage holds the current state *)
StoreIsCurrent == phase = "running" => \A b \in (pers \cap Sync) \ dirty : store[b] = live[b]
(* nothing of a block is written once one of its handlers failed *)
NoWriteAfterHandlerError == [][\A b \in failed : store'[b] = store[b]]_pvars
(* nothing at all is written if the start-up failed *)
NothingSavedIfStartFailed == (phase = "stopped" /\ ~startOk) => (ts = NONE /\ \A b \in Blocks : store[b] = ABSENT)
(* a regular stop saves every persistent block together with the time stamp *)
StopSavesAll == (phase = "stopped" /\ startOk) => (ts # NONE /\ \A b \in pers : store[b] = live[b])
=============================================================================
