------------------------------- MODULE MC_Init -------------------------------
(* Every configuration of N blocks (sources x timeouts x event edges to later blocks)    *)
(* in every creation order: the outcome predicted by the operational definition equals   *)
(* the declarative, order-independent one, and every log obeys the source order.         *)
EXTENDS Integers, Sequences, FiniteSets, TLC
CONSTANTS N, Edges, EarlyInit
VARIABLES cfg, order, first, S
I == INSTANCE Init
B == 1..N
BlockCfgs(b) == [restore : {"none", "ok", "noinit", "raise"}, asyn : {"none", "ok", "never"}, dur : {1, 5},
                 tmo : {0, 3}, regular : {"none", "set"}, initdef : BOOLEAN,
                 edge : IF Edges THEN {0} \cup {x \in B : x > b} ELSE {0}]
Perms == {p \in [B -> B] : \A x \in B : \E i \in B : p[i] = x}
Init == /\ cfg \in {c \in [B -> UNION {BlockCfgs(b) : b \in B}] :
                      /\ \A b \in B : c[b] \in BlockCfgs(b)
                      /\ \A b \in B : (c[b].asyn = "none" => (c[b].dur = 1 /\ c[b].tmo = 0))
                      /\ \A b \in B : (c[b].asyn = "never" => c[b].dur = 5)}
        /\ order \in Perms
        /\ first \in 0..N
        /\ S = I!RunX(cfg, order, first)
Next == UNCHANGED <<cfg, order, first, S>>
Spec == Init /\ [][Next]_<<cfg, order, first, S>>
OrderIndependent == first = 0 => I!Success(S) = I!CanInit(cfg)
(* an early event can only help: whatever starts without it starts with it *)
EarlyEventHarmless == I!Success(I!Run(cfg, order)) => I!Success(S)
AtMostOnce == I!AtMostOnce(S)
SourceOrder == I!SourceOrder(S)
StepsBeforeEvent == I!StepsBeforeEvent(S)
AsyncOnlyIfNeeded == \A b \in B : I!Called(S, b, "async") => (cfg[b].tmo > 0 /\ cfg[b].asyn # "none")
AllStepsDone == \A b \in B : S.steps[b] = 2
=============================================================================
