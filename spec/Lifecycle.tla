----------------------------- MODULE Lifecycle -----------------------------
(* Life cycle of a simulation (edzed/simulator.py: run_forever, _run_tasks,              *)
(* _init_sblocks_async, _stop_sblocks, abort, shutdown), properties C08, C09, C14.        *)
(*                                                                                       *)
(* Blocks 1..N in creation order; cfg[b] = [async (effective stop_async), init (has an   *)
(* init_async routine taking `idur` ticks, 0 = none), itmo (init_timeout), main (runs a  *)
(* monitored main task, cancelled by stop_async), fault (where it raises: "none",        *)
(* "start", "sync1" (restore: suppressed), "initasync" (suppressed), "init_regular",     *)
(* "eval", "stop" (suppressed), "stop_async" (suppressed))].                             *)
(*                                                                                       *)
(* pc follows run_forever.  Await points (where a pending cancellation is delivered):    *)
(* "yield0" (after the start loop), "asyncwait", "idle", "consume", "stopyield",         *)
(* "stopwait".  An error code is a positive number; CANCEL = 0 is a cancellation.        *)
(* InitTasksCancelledOnExit = FALSE is the deviation "when the asynchronous               *)
(* initialisation is left by an exception only the awaited init task is cancelled".      *)
EXTENDS Integers, Sequences, FiniteSets

CONSTANTS N, InitTasksCancelledOnExit
VARIABLES cfg, pc, err, cancelPending, simset, started, startOk, stopCalls, sa, tasks, order, now,
          idx, waiting, raised
lvars == <<cfg, pc, err, cancelPending, simset, started, startOk, stopCalls, sa, tasks, order, now,
           idx, waiting, raised>>
NONE == 0 - 1
CANCEL == 0
Blocks == 1..N
AsyncBlocks == {b \in Blocks : cfg[b].async}
InitBlocks == {b \in Blocks : cfg[b].init > 0 /\ cfg[b].itmo > 0}
First(e) == IF err = NONE THEN e ELSE err

LInit(c) == /\ cfg = c /\ pc = "new" /\ err = NONE /\ cancelPending = FALSE /\ simset = FALSE
            /\ started = {} /\ startOk = FALSE /\ stopCalls = [b \in Blocks |-> 0]
            /\ sa = [b \in Blocks |-> "no"] /\ tasks = {} /\ order = <<>> /\ now = 0
            /\ idx = 1 /\ waiting = <<>> /\ raised = NONE

(* abort(e) from anywhere: the first error wins; a running simulation task is cancelled *)
Abort(e) == /\ pc # "done"
            /\ err' = First(e)
            /\ cancelPending' = (cancelPending \/ (err = NONE /\ simset))
            /\ UNCHANGED <<cfg, pc, simset, started, startOk, stopCalls, sa, tasks, order, now, idx, waiting, raised>>

(* an exception e raised inside the try block of run_forever *)
Caught(e) == /\ err' = First(e) /\ pc' = "consume" /\ raised' = e
(* delivery of a pending cancellation at an await point inside the try block *)
Deliver == cancelPending /\ cancelPending' = FALSE /\ Caught(CANCEL)

Begin == /\ pc = "new" /\ simset' = TRUE
         /\ IF err # NONE THEN pc' = "consume" /\ raised' = err ELSE pc' = "start" /\ UNCHANGED raised
         /\ UNCHANGED <<cfg, err, cancelPending, started, startOk, stopCalls, sa, tasks, order, now, idx, waiting>>
StartBlock == /\ pc = "start" /\ idx <= N
              /\ IF cfg[idx].fault = "start"
                 THEN Caught(100 + idx) /\ UNCHANGED <<started, tasks, idx, cancelPending>>
                 ELSE /\ started' = started \cup {idx} /\ idx' = idx + 1
                      /\ tasks' = IF cfg[idx].main THEN tasks \cup {<<"main", idx>>} ELSE tasks
                      /\ UNCHANGED <<pc, err, raised, cancelPending>>
              /\ UNCHANGED <<cfg, simset, startOk, stopCalls, sa, order, now, waiting>>
StartDone == /\ pc = "start" /\ idx > N /\ pc' = "yield0"
             /\ UNCHANGED <<cfg, err, cancelPending, simset, started, startOk, stopCalls, sa, tasks, order, now, idx, waiting, raised>>
Yield0 == /\ pc = "yield0"
          /\ IF cancelPending THEN Deliver /\ UNCHANGED <<startOk, tasks, waiting>>
             ELSE /\ startOk' = TRUE
                  \* sync init 1 (restore errors are suppressed), then the init tasks are created
                  /\ tasks' = tasks \cup {<<"init", b>> : b \in InitBlocks}
                  /\ waiting' = [b \in Blocks |-> IF b \in InitBlocks THEN "run" ELSE "none"]
                  /\ pc' = "asyncwait" /\ UNCHANGED <<err, cancelPending, raised>>
          /\ UNCHANGED <<cfg, simset, started, stopCalls, sa, order, now, idx>>
(* an init task ends: completes, fails (suppressed) or hits its timeout *)
InitEnds(b) == /\ pc = "asyncwait" /\ <<"init", b>> \in tasks
               /\ (now = cfg[b].init \/ now = cfg[b].itmo)
               /\ tasks' = tasks \ {<<"init", b>>}
               /\ UNCHANGED <<cfg, pc, err, cancelPending, simset, started, startOk, stopCalls, sa, order, now, idx, waiting, raised>>
AsyncWait == /\ pc = "asyncwait"
             /\ IF cancelPending
                THEN /\ Deliver
                     \* wait_for() cancels the task it is awaiting; the others only if the
                     \* routine cleans up behind itself
                     /\ tasks' = IF InitTasksCancelledOnExit
                                 THEN {t \in tasks : t[1] # "init"}
                                 ELSE IF \E b \in Blocks : <<"init", b>> \in tasks
                                      THEN tasks \ {<<"init", CHOOSE b \in Blocks : <<"init", b>> \in tasks /\
                                                       \A c \in Blocks : <<"init", c>> \in tasks => cfg[c].itmo <= cfg[b].itmo>>}
                                      ELSE tasks
                ELSE /\ \A b \in Blocks : <<"init", b>> \notin tasks
                     /\ pc' = "sync2" /\ UNCHANGED <<err, cancelPending, raised, tasks>>
             /\ UNCHANGED <<cfg, simset, started, startOk, stopCalls, sa, order, now, idx, waiting>>
Sync2 == /\ pc = "sync2"
         /\ IF \E b \in Blocks : cfg[b].fault = "init_regular"
            THEN Caught(200 + (CHOOSE b \in Blocks : cfg[b].fault = "init_regular"))
            ELSE IF err # NONE THEN pc' = "consume" /\ UNCHANGED <<err, raised>>   \* abort during init: no simulation
            ELSE IF \E b \in Blocks : cfg[b].fault = "eval"
            THEN Caught(300 + (CHOOSE b \in Blocks : cfg[b].fault = "eval"))
            ELSE pc' = "idle" /\ UNCHANGED <<err, raised>>
         /\ UNCHANGED <<cfg, cancelPending, simset, started, startOk, stopCalls, sa, tasks, order, now, idx, waiting>>
Idle == /\ pc = "idle" /\ cancelPending /\ Deliver
        /\ UNCHANGED <<cfg, simset, started, startOk, stopCalls, sa, tasks, order, now, idx, waiting>>
(* a monitored main task fails: abort(e) *)
MainFails(b) == /\ pc \in {"asyncwait", "idle"} /\ <<"main", b>> \in tasks /\ cfg[b].fault = "main"
                /\ tasks' = tasks \ {<<"main", b>>}
                /\ err' = First(400 + b) /\ cancelPending' = (cancelPending \/ err = NONE)
                /\ UNCHANGED <<cfg, pc, simset, started, startOk, stopCalls, sa, order, now, idx, waiting, raised>>
Consume == /\ pc = "consume" /\ cancelPending' = FALSE
           /\ pc' = (IF started = {} THEN "raise" ELSE "stopA")
           /\ UNCHANGED <<cfg, err, simset, started, startOk, stopCalls, sa, tasks, order, now, idx, waiting, raised>>
(* clean-up, part 1: stop() of every block with asynchronous clean-up, errors ignored *)
StopA == /\ pc = "stopA"
         /\ LET todo == {b \in started \cap AsyncBlocks : stopCalls[b] = 0} IN
            IF todo = {} THEN /\ pc' = (IF started \cap AsyncBlocks = {} THEN "stopS" ELSE "stopwait")
                              /\ sa' = [b \in Blocks |-> IF b \in started \cap AsyncBlocks THEN "running" ELSE sa[b]]
                              /\ UNCHANGED <<stopCalls, order>>
            ELSE \E b \in todo : /\ stopCalls' = [stopCalls EXCEPT ![b] = 1]
                                 /\ order' = Append(order, <<"stop", b>>) /\ UNCHANGED <<pc, sa>>
         /\ UNCHANGED <<cfg, err, cancelPending, simset, started, startOk, tasks, now, idx, waiting, raised>>
(* stop_async of block b ends (normally, by an exception or by its timeout); it cancels  *)
(* the block's main task                                                                 *)
StopAsyncEnds(b) == /\ pc = "stopwait" /\ sa[b] = "running"
                    /\ sa' = [sa EXCEPT ![b] = "done"]
                    /\ tasks' = tasks \ {<<"main", b>>}
                    /\ order' = Append(order, <<"sa", b>>)
                    /\ UNCHANGED <<cfg, pc, err, cancelPending, simset, started, startOk, stopCalls, now, idx, waiting, raised>>
StopWaitDone == /\ pc = "stopwait" /\ \A b \in Blocks : sa[b] # "running" /\ pc' = "stopS"
                /\ UNCHANGED <<cfg, err, cancelPending, simset, started, startOk, stopCalls, sa, tasks, order, now, idx, waiting, raised>>
StopS == /\ pc = "stopS"
         /\ LET todo == {b \in started \ AsyncBlocks : stopCalls[b] = 0} IN
            IF todo = {} THEN pc' = "raise" /\ UNCHANGED <<stopCalls, order>>
            ELSE \E b \in todo : /\ stopCalls' = [stopCalls EXCEPT ![b] = 1]
                                 /\ order' = Append(order, <<"stop", b>>) /\ UNCHANGED pc
         /\ UNCHANGED <<cfg, err, cancelPending, simset, started, startOk, sa, tasks, now, idx, waiting, raised>>
Raise == /\ pc = "raise" /\ pc' = "done"
         /\ UNCHANGED <<cfg, err, cancelPending, simset, started, startOk, stopCalls, sa, tasks, order, now, idx, waiting, raised>>
Tick == /\ pc = "asyncwait" /\ ~cancelPending /\ now < 4
        /\ \A b \in Blocks : <<"init", b>> \in tasks => (now < cfg[b].init /\ now < cfg[b].itmo)
        /\ now' = now + 1
        /\ UNCHANGED <<cfg, pc, err, cancelPending, simset, started, startOk, stopCalls, sa, tasks, order, idx, waiting, raised>>
LNext == \/ Begin \/ StartBlock \/ StartDone \/ Yield0 \/ AsyncWait \/ Sync2 \/ Idle \/ Consume
         \/ StopA \/ StopWaitDone \/ StopS \/ Raise \/ Tick
         \/ \E b \in Blocks : InitEnds(b) \/ MainFails(b) \/ StopAsyncEnds(b)
         \/ \E e \in {CANCEL, 900} : Abort(e)

(* ---------------- properties ---------------- *)
(* C08: stop() exactly once on exactly the started blocks *)
StoppedExactlyOnce == pc = "done" => \A b \in Blocks : stopCalls[b] = (IF b \in started THEN 1 ELSE 0)
(* C08: blocks with asynchronous clean-up are stopped and awaited before the others *)
Pos(x) == CHOOSE i \in DOMAIN order : order[i] = x
AsyncFirst == \A a \in started \cap AsyncBlocks, s \in started \ AsyncBlocks :
                 (<<"stop", s>> \in {order[i] : i \in DOMAIN order}) =>
                     /\ <<"sa", a>> \in {order[i] : i \in DOMAIN order}
                     /\ Pos(<<"sa", a>>) < Pos(<<"stop", s>>)
(* C08: nothing created by edzed outlives the simulation *)
NothingLeft == pc = "done" => tasks = {}
(* C09: the first error delivered to the simulator is the one reported *)
FirstWins == [][err # NONE => err' = err]_lvars
(* C09: a started simulation always ends once an error was delivered (no way back) *)
NeverReadyAgain == [][(simset /\ err # NONE) => (simset' /\ err' # NONE)]_lvars
(* C14: an external event is accepted iff the simulation task exists and no error was delivered *)
Ready == simset /\ err = NONE
ReadyOnlyWhileRunning == Ready => pc \in {"start", "yield0", "asyncwait", "sync2", "idle"}
=============================================================================
