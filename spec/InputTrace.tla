---------------------------- MODULE InputTrace ----------------------------
(* Trace specification for Input / InputExp (C17).  hdr = the configuration record;     *)
(* lines: construct(refused), start(out), put(v, x, ret, out).                          *)
EXTENDS TraceLib
K == 6
VARIABLES cfg, phase, out, ret, tid, l
I == INSTANCE Input
vars == <<cfg, phase, out, ret>>
Ev(t) == Traces[t].ev
TraceInit == /\ tid \in 1..NTraces /\ l = 1
             /\ cfg = Traces[tid].hdr /\ phase = "new" /\ out = 0 /\ ret = FALSE
Step == /\ l <= Len(Ev(tid))
        /\ LET e == Ev(tid)[l] IN
             \/ /\ e.ev = "construct" /\ I!Construct
                /\ e.refused = (phase' = "refused")
                /\ (~e.refused => out' = e.out)          \* output right after start-up
             \/ /\ e.ev = "put" /\ I!Put(e.v, e.x)
                /\ out' = e.out /\ ret' = e.ret /\ ~e.cerr
        /\ l' = l + 1 /\ UNCHANGED tid
TraceSpec == TraceInit /\ [][Step]_<<vars, tid, l>>
ASSUME InitRegs
Book == /\ Reach(tid, l, <<phase, out, ret>>)
        /\ Soft(tid, l, "OutputAlwaysAccepted", I!OutputAlwaysAccepted)
        /\ Soft(tid, l, "RefusedHasNoOutput", I!RefusedHasNoOutput)
LenOf(t) == Len(Ev(t))
Accepted == AcceptedAll(LenOf)
=============================================================================
