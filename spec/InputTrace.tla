---------------------------- MODULE InputTrace ----------------------------
(* Trace specification for Input / InputExp (C17).  hdr = the configuration record;     *)
(* lines: construct(refused), start(out), put(v, x, ret, out), put_raise(v, x, out, exc). *)
EXTENDS TraceLib
K == 8
VARIABLES cfg, phase, out, ret, tid, l
I == INSTANCE Input
vars == <<cfg, phase, out, ret>>
Ev(t) == Traces[t].ev
TraceInit == /\ tid \in 1..NTraces /\ l = 1
             /\ cfg = Traces[tid].hdr /\ phase = "new" /\ out = 0 /\ ret = FALSE
Step == /\ l <= Len(Ev(tid))
        /\ LET e == Ev(tid)[l] IN
             \/ /\ e.ev = "construct" /\ I!Construct
                /\ e.refused = (phase' = "refused")
                /\ (~e.refused => out' = e.out)          \* output right after start-up
             \/ /\ e.ev = "put" /\ I!Put(e.v, e.x)
                /\ out' = e.out /\ ret' = e.ret /\ ~e.cerr
                /\ ~(cfg.outfail # 0 /\ out' = cfg.outfail /\ out' # out)   \* (that output event fails)
             \* the value was accepted and stored, then the block's own output event failed:
             \* an error of the simulation, reported as such - not a rejected put
             \/ /\ e.ev = "put_raise" /\ I!Put(e.v, e.x)
                /\ ret' = TRUE /\ out' = e.out /\ out' # out /\ out' = cfg.outfail
                /\ e.cerr                                  \* (the caller gets the exception, whatever its type)
        /\ l' = l + 1 /\ UNCHANGED tid
TraceSpec == TraceInit /\ [][Step]_<<vars, tid, l>>
ASSUME InitRegs
Book == /\ Reach(tid, l, <<phase, out, ret>>)
        /\ Soft(tid, l, "OutputAlwaysAccepted", I!OutputAlwaysAccepted)
        /\ Soft(tid, l, "RefusedHasNoOutput", I!RefusedHasNoOutput)
LenOf(t) == Len(Ev(t))
Accepted == AcceptedAll(LenOf)
=============================================================================
