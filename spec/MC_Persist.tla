----------------------------- MODULE MC_Persist -----------------------------
EXTENDS Integers, Sequences, FiniteSets, TLC
Blocks == {1, 2}
Sync == {1}
PersistentAtStart == {1, 2}
CONSTANT DisableOnError
VARIABLES phase, live, store, ts, pers, startOk, now, failed, dirty
P == INSTANCE Persist
Spec == P!PInit /\ [][P!PNext]_P!pvars
StoreIsCurrent == P!StoreIsCurrent
NoWriteAfterHandlerError == P!NoWriteAfterHandlerError
NothingSavedIfStartFailed == P!NothingSavedIfStartFailed
StopSavesAll == P!StopSavesAll
(* restart laws on a grid *)
Snaps == [st : {1, 2}, due : {P!NONE, 2, 5}, sd : {0, 1}]
RestartLaws == \A s \in Snaps, t \in {P!NONE, 0, 3}, e \in {P!NOEXP, 0, 1, 4}, n \in {3, 4, 6} :
                  /\ (~P!Discarded(s, t, e, n) => P!Restored(s) = s)                     \* round trip, absolute timer
                  /\ ((s.due # P!NONE /\ s.due <= n) => P!Discarded(s, t, e, n))          \* timer ran out
                  /\ ((e = 0) => P!Discarded(s, t, e, n))
                  /\ ((e = P!NOEXP /\ (s.due = P!NONE \/ s.due > n)) => ~P!Discarded(s, t, e, n))   \* never expires
=============================================================================
