SPECIFICATION Spec
CONSTANTS CancelOnExit = TRUE
 FiredTimerCleared = TRUE
 RestoreTimerFirst = TRUE
 StartMode = "fresh"
 MaxNow = 4
 MaxLevel = 12
 MinStop = 0
 Tables = "all"
INVARIANT AtMostOnePending
INVARIANT Refines
INVARIANT ReportedIsPending
INVARIANT NothingAfterStop
INVARIANT OnTime
INVARIANT StateValid
INVARIANT NoStaleFire
CONSTRAINT Bound
VIEW View
CHECK_DEADLOCK FALSE
