------------------------------- MODULE MC_Fsm -------------------------------
(* Exhaustive: every transition table over 2 states x 2 events (specific / any-state /   *)
(* None / missing rules: 4096 tables) x chained-entry scripts, every event (table events *)
(* with all data flags, Goto, unknown) in every reachable state.  The FSM is state-      *)
(* determined, so this covers event sequences of any length.                             *)
EXTENDS Integers, Sequences, TLC
CONSTANTS ChainUpdatesCtx, ChainMode
N == 2
M == 2
VARIABLES cfg, st, out, res
F == INSTANCE Fsm
vars == <<cfg, st, out, res>>
T == {0 - 1, 0, 1, 2}
NoChain == [on |-> FALSE, goto |-> 0, e |-> 1, tag |-> 0, prop |-> 0, double |-> FALSE, always |-> FALSE, cnd |-> 1]
ChainOpts == IF ChainMode = "none" THEN {NoChain}
             ELSE IF ChainMode = "few" THEN
                  {NoChain,
                   [on |-> TRUE, goto |-> 0, e |-> 1, tag |-> 9, prop |-> 1, double |-> FALSE, always |-> FALSE, cnd |-> 1],
                   [on |-> TRUE, goto |-> 0, e |-> 2, tag |-> 9, prop |-> 0, double |-> FALSE, always |-> FALSE, cnd |-> 1],
                   [on |-> TRUE, goto |-> 1, e |-> 1, tag |-> 9, prop |-> 0, double |-> FALSE, always |-> FALSE, cnd |-> 1],
                   [on |-> TRUE, goto |-> 0, e |-> 2, tag |-> 9, prop |-> 0, double |-> TRUE, always |-> FALSE, cnd |-> 1],
                   [on |-> TRUE, goto |-> 0, e |-> 1, tag |-> 9, prop |-> 0, double |-> FALSE, always |-> TRUE, cnd |-> 0]}
             ELSE {NoChain} \cup
                  {[on |-> TRUE, goto |-> g, e |-> e, tag |-> 9, prop |-> p, double |-> FALSE, always |-> FALSE, cnd |-> 1] :
                       g \in {0, 1, 2}, e \in {1, 2}, p \in {0, 1}} \cup
                  {[on |-> TRUE, goto |-> 0, e |-> 2, tag |-> 9, prop |-> 0, double |-> TRUE, always |-> FALSE, cnd |-> 1]}
AnyT == IF ChainMode = "none" THEN T ELSE {0 - 1, 2}
Init == /\ \E tr \in [1..M -> [1..N -> T]], an \in [1..M -> AnyT], c1 \in ChainOpts, c2 \in ChainOpts, h2 \in (IF ChainMode = "few" THEN {FALSE} ELSE BOOLEAN) :
             cfg = [n |-> N, m |-> M, trans |-> tr, any |-> an,
                    cond |-> <<3, 1>>, enter |-> <<3, 1>>, exit |-> <<1, 3>>,
                    on_enter |-> <<TRUE, TRUE>>, on_exit |-> <<TRUE, TRUE>>,
                    on_notrans |-> TRUE, on_output |-> TRUE, chain |-> <<c1, c2>>, xchain |-> <<FALSE, TRUE>>,
                    hold |-> <<FALSE, h2>>, nbad |-> <<FALSE, FALSE>>]
        /\ st = 0 /\ out = 0
        /\ res = F!Result("none", 0, 0, <<>>)
Data == [tag : {5}, chain : {0, 1}, cond : {0, 1}, condf : IF ChainMode = "none" THEN {0, 1} ELSE {1}, xc : {0, 1}]
Events == {[goto |-> g, e |-> 0, d |-> d] : g \in 1..N, d \in {[tag |-> 5, chain |-> c, cond |-> 1, condf |-> 1, xc |-> 0] : c \in {0, 1}}}
          \cup {[goto |-> 0, e |-> e, d |-> d] : e \in 0..M, d \in Data}
Send == \E ev \in Events :
           /\ (st = 0 => ev.goto # 0)                 \* the first event is the initialising Goto
           /\ res.ret # "error"                       \* an error stops the simulation
           /\ res' = F!Handle(cfg, st, out, ev)
           /\ st' = res'.st /\ out' = res'.out /\ UNCHANGED cfg
Spec == Init /\ [][Send]_vars
RejectChangesNothing == [][F!RejectChangesNothing(st, out, res')]_vars
IntermediateInvisible == [][F!IntermediateInvisible(cfg, out, res')]_vars
DataOfCausingEvent == F!DataOfCausingEvent(res)
OrderOfActions == F!OrderOfActions(res)
ReturnIffAccepted == res.ret \in {"none", "true", "false", "unknown", "error", "raised"}
StateValid == st \in 0..N /\ (res.ret # "error" => (out = st \/ (st # 0 /\ cfg.hold[st])))
=============================================================================
