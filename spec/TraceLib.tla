---------------------------- MODULE TraceLib ----------------------------
(* Shared idiom for *batch* trace validation (DESIGN.md section 3, Appendix C).          *)
(* One TLC run validates thousands of recorded executions: the trace specification has   *)
(* two extra variables, tid (which recorded execution) and l (next line to consume).     *)
(* TLC registers keep, per tid, the longest matched prefix together with the last state  *)
(* reached, so that a rejection names the first unmatched line.  Property invariants are *)
(* evaluated in every state by the CONSTRAINT (operator Soft): a violation is printed    *)
(* and the behaviour is pruned, so one run reports all violating traces, not only the    *)
(* first.  Requires -workers 1.                                                          *)
EXTENDS Integers, Sequences, FiniteSets, TLC, Json, IOUtils

Traces == JsonDeserialize(IOEnv.TRACE_FILE)
NTraces == Len(Traces)
Base == 10

InitRegs == \A t \in 1..NTraces : TLCSet(Base + t, <<0, "none">>)

Reach(t, l, st) == LET r == TLCGet(Base + t)
                   IN  IF l > r[1] THEN TLCSet(Base + t, <<l, st>>) ELSE TRUE

Soft(t, l, name, ok) == ok \/ (PrintT(<<"INV", t, l, name>>) /\ FALSE)

AcceptedAll(LenOf(_)) ==
    /\ \A t \in 1..NTraces :
          LET r == TLCGet(Base + t)
          IN  r[1] = LenOf(t) + 1 \/ PrintT(<<"REJ", t, r[1], r[2]>>)
    /\ PrintT(<<"SUMMARY", NTraces,
                 Cardinality({t \in 1..NTraces : TLCGet(Base + t)[1] # LenOf(t) + 1})>>)
    /\ PrintT("TRACECHECK-DONE")

(* helpers for JSON data *)
Has(rec, key) == key \in DOMAIN rec
Get(rec, key, default) == IF key \in DOMAIN rec THEN rec[key] ELSE default
=============================================================================
