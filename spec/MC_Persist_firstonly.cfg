SPECIFICATION Spec
CONSTANT DisableOnError = "first"
INVARIANT StoreIsCurrent
INVARIANT NothingSavedIfStartFailed
INVARIANT StopSavesAll
INVARIANT RestartLaws
PROPERTY NoWriteAfterHandlerError
CHECK_DEADLOCK FALSE
