---------------------------- MODULE MC_Circuit ----------------------------
(* Exhaustive: all scripts over 3 user blocks (block 1 sequential; blocks 2, 3 either     *)
(* sequential, a Not with one reference, or a gate with 0..2 references in one group),   *)
(* every reference being a block (object/name), a '_not_' shortcut or a constant.        *)
EXTENDS Integers, Sequences, FiniteSets, TLC
CONSTANTS SecondPass
VARIABLES script, exist, iconn, oconn, todo, pass, frozen
C == INSTANCE Circuit
NB == 3
Refs == {[t |-> "blk", x |-> x] : x \in 1..NB} \cup {[t |-> "inv", x |-> x] : x \in 1..NB}
        \cup {[t |-> "const", x |-> 7]}
RefSeqs(k) == UNION {[1..m -> Refs] : m \in 0..k}
SB == [s |-> TRUE, not |-> FALSE, ins |-> <<>>]
Gate(rs) == [s |-> FALSE, not |-> FALSE, ins |-> IF rs = <<>> THEN <<>> ELSE <<[single |-> FALSE, refs |-> rs]>>]
NotB(r) == [s |-> FALSE, not |-> TRUE, ins |-> <<[single |-> FALSE, refs |-> <<r>>]>>]
BlockOpts == {SB} \cup {Gate(rs) : rs \in RefSeqs(2)} \cup {NotB(r) : r \in Refs}
Init == /\ \E b2 \in BlockOpts, b3 \in BlockOpts : script = <<SB, b2, b3>>
        /\ exist = 1..NB /\ iconn = [x \in 1..NB |-> {}] /\ oconn = [x \in 1..NB |-> {}]
        /\ todo = <<>> /\ pass = 0 /\ frozen = FALSE
Spec == Init /\ [][C!CNext]_<<script, exist, iconn, oconn, todo, pass, frozen>>
Biconditional == C!Biconditional
MatchesDeclaration == C!MatchesDeclaration
InverterUnique == C!InverterUnique
ScriptFrozen == [][script' = script]_<<script, exist, iconn, oconn, todo, pass, frozen>>
=============================================================================
