SPECIFICATION Spec
CONSTRAINT Bounded
INVARIANT InRange
INVARIANT ReturnIsOutput
PROPERTY ConfFrozen
PROPERTY PutMissingHarmless
CHECK_DEADLOCK FALSE
