-------------------------------- MODULE Init --------------------------------
(* Start-up initialisation of sequential blocks (edzed/simulator.py: init_sblock,        *)
(* _init_sblocks_sync_1/2, _init_sblocks_async; edzed/block.py: early initialisation in  *)
(* SBlock.event), property C05.                                                          *)
(*                                                                                       *)
(* cfg[b] = [restore ("none" | "ok" | "noinit" | "raise"), asyn ("none" | "ok" | "raise" *)
(* | "never"), dur (ticks the asynchronous routine takes), tmo (init_timeout, 0 = off),  *)
(* regular ("none" | "set"), initdef (BOOLEAN), edge (0 or the block that receives a     *)
(* 'put' event whenever the output of b changes)];  order = creation order.              *)
(* Output tags: 0 UNDEF, 1 restored, 2 async, 3 regular, 4 initdef, 5 set by an event.   *)
(* A state is S = [out, steps, log]; log = sequence of <<block, routine>>.               *)
EXTENDS Integers, Sequences, FiniteSets, SequencesExt

CONSTANTS EarlyInit      \* TRUE = the code; FALSE = deviation "an event is handled without running the pending steps"

UNDEF == 0
Blocks(cfg) == DOMAIN cfg
Log(S, b, r) == [S EXCEPT !.log = Append(@, <<b, r>>)]

RECURSIVE SetOut(_, _, _, _), Event(_, _, _), Regular(_, _, _), Restore(_, _, _)
(* assignment of an output; a change sends the block's on_output event *)
SetOut(cfg, b, v, S) ==
    IF S.out[b] = v THEN S
    ELSE LET S1 == [S EXCEPT !.out[b] = v] IN
         IF cfg[b].edge # 0 THEN Event(cfg, cfg[b].edge, S1) ELSE S1
(* step 1: the saved state *)
Restore(cfg, b, S) ==
    LET S0 == [S EXCEPT !.steps[b] = 1] IN
    IF cfg[b].restore = "none" THEN S0
    ELSE LET S1 == Log(S0, b, "restore") IN
         IF cfg[b].restore = "ok" THEN SetOut(cfg, b, 1, S1) ELSE S1      \* failures are suppressed
(* step 2: the regular routine, then the initdef value if still uninitialised *)
Regular(cfg, b, S) ==
    LET S0 == Log([S EXCEPT !.steps[b] = 2], b, "regular")
        S1 == IF cfg[b].regular = "set" THEN SetOut(cfg, b, 3, S0) ELSE S0
    IN  IF S1.out[b] = UNDEF /\ cfg[b].initdef THEN SetOut(cfg, b, 4, Log(S1, b, "initdef")) ELSE S1
(* an event for b: the synchronous steps not yet done run first, then the handler *)
Event(cfg, b, S) ==
    LET S1 == IF EarlyInit /\ S.steps[b] = 0 THEN Restore(cfg, b, S) ELSE S
        S2 == IF EarlyInit /\ S1.steps[b] = 1 THEN Regular(cfg, b, S1) ELSE S1
    IN  SetOut(cfg, b, 5, Log(S2, b, "event"))

RECURSIVE Sync1(_, _, _, _), Sync2(_, _, _, _), Complete(_, _, _, _)
Sync1(cfg, order, i, S) == IF i > Len(order) THEN S
                           ELSE Sync1(cfg, order, i + 1,
                                      IF S.steps[order[i]] = 0 THEN Restore(cfg, order[i], S) ELSE S)
Sync2(cfg, order, i, S) == IF i > Len(order) THEN S
                           ELSE Sync2(cfg, order, i + 1,
                                      IF S.steps[order[i]] = 1 THEN Regular(cfg, order[i], S) ELSE S)
(* asynchronous routines: started for the blocks still uninitialised that have a routine *)
(* and a positive timeout; the successful ones complete in the order of their durations  *)
(* (equal durations: in creation order)                                                  *)
AsyncStarted(cfg, S) == {b \in Blocks(cfg) : cfg[b].asyn # "none" /\ S.out[b] = UNDEF /\ cfg[b].tmo > 0}
Completing(cfg, started) == {b \in started : cfg[b].asyn = "ok" /\ cfg[b].dur < cfg[b].tmo}
PosIn(order, x) == CHOOSE i \in DOMAIN order : order[i] = x
Complete(cfg, order, todo, S) ==
    IF todo = {} THEN S
    ELSE LET b == CHOOSE x \in todo : \A y \in todo :
                     cfg[x].dur < cfg[y].dur \/ (cfg[x].dur = cfg[y].dur /\ PosIn(order, x) <= PosIn(order, y))
         IN  Complete(cfg, order, todo \ {b}, IF S.out[b] = UNDEF THEN SetOut(cfg, b, 2, S) ELSE S)
SetToSeqLog(st) == LET q == SetToSortSeq(st, LAMBDA a, b : a < b) IN [i \in 1..Len(q) |-> <<q[i], "async">>]
Async(cfg, order, S) == LET st == AsyncStarted(cfg, S)
                     S1 == [S EXCEPT !.log = @ \o SetToSeqLog(st)]
                 IN  Complete(cfg, order, Completing(cfg, st), S1)
Start(cfg) == [out |-> [b \in Blocks(cfg) |-> UNDEF], steps |-> [b \in Blocks(cfg) |-> 0], log |-> <<>>]
(* first # 0: an external event reaches block `first` right after the blocks were started, *)
(* before the simulator has initialised anything                                          *)
RunX(cfg, order, first) ==
    LET S0 == IF first = 0 THEN Start(cfg) ELSE Event(cfg, first, Start(cfg))
    IN  Sync2(cfg, order, 1, Async(cfg, order, Sync1(cfg, order, 1, S0)))
Run(cfg, order) == RunX(cfg, order, 0)
Success(S) == \A b \in DOMAIN S.out : S.out[b] # UNDEF
(* the wait for the asynchronous routines never exceeds the largest init_timeout *)
MaxWait(cfg) == LET T == {cfg[b].tmo : b \in Blocks(cfg)} IN CHOOSE m \in T : \A x \in T : x <= m

(* ---- declarative: which blocks can be initialised at all (order independent) ---- *)
OwnSource(cfg, b) == \/ cfg[b].restore = "ok"
                     \/ (cfg[b].asyn = "ok" /\ cfg[b].tmo > 0 /\ cfg[b].dur < cfg[b].tmo)
                     \/ cfg[b].regular = "set" \/ cfg[b].initdef
RECURSIVE Reach(_, _, _)
Reach(cfg, b, k) == OwnSource(cfg, b) \/
                    (k > 0 /\ \E a \in Blocks(cfg) : cfg[a].edge = b /\ Reach(cfg, a, k - 1))
CanInit(cfg) == \A b \in Blocks(cfg) : Reach(cfg, b, Cardinality(Blocks(cfg)))

(* ---- properties of a log ---- *)
Called(S, b, r) == \E i \in DOMAIN S.log : S.log[i] = <<b, r>>
Count(S, b, r) == Cardinality({i \in DOMAIN S.log : S.log[i] = <<b, r>>})
FirstPos(S, b, r) == CHOOSE i \in DOMAIN S.log : S.log[i] = <<b, r>> /\ \A j \in DOMAIN S.log : S.log[j] = <<b, r>> => i <= j
AtMostOnce(S) == \A b \in DOMAIN S.out, r \in {"restore", "async", "regular", "initdef"} : Count(S, b, r) <= 1
Before(S, b, r1, r2) == (Called(S, b, r1) /\ Called(S, b, r2)) => FirstPos(S, b, r1) < FirstPos(S, b, r2)
SourceOrder(S) == \A b \in DOMAIN S.out :
                     /\ Before(S, b, "restore", "async") /\ Before(S, b, "restore", "regular")
                     /\ Before(S, b, "regular", "initdef")
StepsBeforeEvent(S) == \A b \in DOMAIN S.out : Called(S, b, "event") => Before(S, b, "regular", "event")
CalledSet(S, b) == {r \in {"restore", "async", "regular", "initdef", "event"} : Called(S, b, r)}
=============================================================================
