---------------------------- MODULE MC_Durations ----------------------------
(* Laws of the duration arithmetic, evaluated by TLC on grids (no behaviours).           *)
EXTENDS Integers, Sequences, TLC
D == INSTANCE Durations
VARIABLE done
ABSENT == D!ABSENT
Grid == (0..4000) \cup {59, 60, 61, 3599, 3600, 3601, 86399, 86400, 86401, 90061, 863999, 864000,
                        864001, 35999, 36000, 36001, 10000000}
         \cup {k * 3600 + 59 : k \in 0..50} \cup {k * 86400 - 1 : k \in 1..30}
Small == {ABSENT, 0, 1, 59, 72}
Abstract == [y : {ABSENT, 0, 1}, mo : {ABSENT, 0, 2}, d : {ABSENT, 0, 2}, h : Small, m : Small, s : Small,
             fu : {"none", "d", "h", "m", "s"}, f : {0, 5, 250, 999}]
(* timestr is the inverse of the unit arithmetic *)
DecomposeInverse == \A n \in Grid : LET c == D!Decompose(n) IN
                        /\ D!Recompose(c) = n /\ c.h < 24 /\ c.m < 60 /\ c.s < 60
                        /\ D!Value([y |-> ABSENT, mo |-> ABSENT, d |-> c.d, h |-> c.h, m |-> c.m, s |-> c.s,
                                    fu |-> "none", f |-> 0]) = [sec |-> n, ms |-> 0]
(* a valid duration has a non-negative value below the sum of its parts + 1 unit *)
ValueSane == \A x \in Abstract : D!Valid(x) =>
                 LET v == D!Value(x) IN v.sec >= 0 /\ v.ms \in 0..999
                     /\ (x.fu = "none" => v.ms = 0)
(* a fraction is accepted only in the smallest unit *)
FractionRule == \A x \in Abstract : (x.fu # "none" /\ D!Valid(x)) =>
                    \A u \in {"d", "h", "m", "s"} : (D!Scale(u) < D!Scale(x.fu)) => D!Comp(x, u) = ABSENT
(* rounding: result within half a step, idempotent *)
RoundingLaw == \A s \in {0, 59, 3599}, k \in 0..999, p \in 0..6 :
                   LET t == [sec |-> s, us |-> k * 1001 % 1000000]  r == D!RoundTo(t, p) IN
                   /\ D!RoundTo(r, p) = r
                   /\ D!Closer(t, r, [sec |-> 0, us |-> D!Pow10(6 - p) \div 2 + 1])
(* the approximation step grows with the magnitude *)
StepMonotone == \A a \in Grid, b \in Grid : a <= b =>
                    ~D!Less(D!ApproxStep([sec |-> b, us |-> 0], TRUE), D!ApproxStep([sec |-> a, us |-> 0], TRUE))
Init == done = FALSE
Next == done' = TRUE
Spec == Init /\ [][Next]_done
Laws == DecomposeInverse /\ ValueSane /\ FractionRule /\ RoundingLaw /\ StepMonotone
=============================================================================
