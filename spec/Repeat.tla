------------------------------- MODULE Repeat -------------------------------
(* The Repeat block (edzed/blocklib/sblocks1.py), property C18.  Time in ticks.          *)
(* cfg = [interval, count (NONE = no limit)];  block state s = [last, n, due, out]:      *)
(* last = data of the most recent event of the configured type, n = number of the last   *)
(* repetition sent (0 = only the original), due = time of the next repetition or NONE,   *)
(* out = the block's output.  Data is a record of small integers [tag, val, x, src].     *)
EXTENDS Integers, Sequences

NONE == 0 - 1
NoData == [tag |-> 0, val |-> 0, x |-> 0, src |-> 0]
Init0 == [last |-> NoData, n |-> 0, due |-> NONE, out |-> 0]

Repeating(cfg, n) == cfg.count = NONE \/ n < cfg.count

(* what the destination receives: the original items, repeat number, the Repeat block as *)
(* source, the original sender as orig_source                                            *)
Sent(me, d, rep) == [tag |-> d.tag, val |-> d.val, x |-> d.x, rep |-> rep, src |-> me, orig |-> d.src]

(* an event of the configured type arrives at time now *)
Recv(cfg, s, now, d) ==
    [last |-> d, n |-> 0, out |-> 0,
     due |-> IF Repeating(cfg, 0) THEN now + cfg.interval ELSE NONE]

(* the interval has elapsed (s.due = now): the next repetition *)
Tick(cfg, s, now) ==
    [last |-> s.last, n |-> s.n + 1, out |-> s.n + 1,
     due |-> IF Repeating(cfg, s.n + 1) THEN now + cfg.interval ELSE NONE]

(* ---- properties of a block state ---- *)
CountBound(cfg, s) == cfg.count # NONE => (s.n <= cfg.count /\ (s.n = cfg.count => s.due = NONE))
OutputIsLastRepeat(s) == s.out = s.n
=============================================================================
