-------------------------------- MODULE Fsm --------------------------------
(* edzed.FSM (edzed/fsm.py) without timers: table lookup and precedence, Goto, cond,     *)
(* exit/enter order, chained transitions, chain limit, event-data visibility,            *)
(* on_enter / on_exit / on_notrans / on_output events.  Property C03.                    *)
(*                                                                                       *)
(* States 1..cfg.n (0 = UNDEF), events 1..cfg.m (0 = an event unknown to the FSM).       *)
(* cfg.trans[e][s] : target state, 0 = explicit None target, -1 = no such rule           *)
(* cfg.any[e]      : target of the any-state rule, 0 = None, -1 = no such rule           *)
(* cfg.cond[e], cfg.enter[s], cfg.exit[s] : 0 none, 1 method, 2 instance function, 3 both*)
(* cfg.on_enter[s], cfg.on_exit[s], cfg.on_notrans, cfg.on_output : BOOLEAN (observed)   *)
(* cfg.chain[s] : what the entry action of s requests when the causing event's data has  *)
(*     chain = 1:  [on, goto (0 = table event), e, tag, prop (chain flag of the new      *)
(*     event), double (the request is made twice), always (the request is made whatever  *)
(*     the data says, i.e. also during the initialisation), cnd (scripted result of the  *)
(*     cond_ callbacks for the requested event)]                                         *)
(* cfg.hold[s]   : BOOLEAN - calc_output() returns UNDEF in state s: "leave the output     *)
(*                 unchanged"; everything else (on_enter events included) is as usual     *)
(* cfg.nbad[s]   : BOOLEAN - the on_enter event of s fails in a non-fatal way (its        *)
(*                 destination does not know the event type): event() raises, the         *)
(*                 transition has taken place, the simulation goes on ("raised")           *)
(* cfg.xchain[s] : BOOLEAN - the exit action of s sends an event to its own FSM when the *)
(*     causing event's data has xc = 1: always a forbidden recursive event() call        *)
(*     (property C11: the only permitted window is the entry action)                     *)
(* Event data: [tag, chain, cond, condf, xc]; cond / condf are the scripted results of   *)
(* cond_EVENT method / instance function.                                                *)
(*                                                                                       *)
(* Handle(cfg, st, out, ev) is the complete observable effect of one event() call:       *)
(* [ret, st, out, log] with log = ordered callbacks and events sent.                     *)
(* ChainUpdatesCtx = TRUE is the documented behaviour (each action sees the data of the  *)
(* event that caused it); FALSE is the deviation "actions of chained links see the data  *)
(* of the first event" (DESIGN.md section 7-1), kept as a sharpness self-test.           *)
EXTENDS Integers, Sequences

CONSTANTS ChainUpdatesCtx

UNDEF == 0

(* log records; c = tag of the causing event (ground truth, model only) *)
Rec(k, n, f, tag, a, b, c) == [k |-> k, n |-> n, f |-> f, tag |-> tag, a |-> a, b |-> b, c |-> c]

Cbs(kind, has, name, seen, cause) ==
    (IF has \in {2, 3} THEN <<Rec(kind, name, 1, seen, 0, 0, cause)>> ELSE <<>>) \o
    (IF has \in {1, 3} THEN <<Rec(kind, name, 0, seen, 0, 0, cause)>> ELSE <<>>)

(* a rule naming the current state beats a rule for any state; None or missing rejects *)
Target(cfg, e, s) == IF cfg.trans[e][s] # 0 - 1 THEN cfg.trans[e][s] ELSE cfg.any[e]

(* an event is known to the FSM iff it occurs in the EVENTS table *)
Known(cfg, e) == e # 0 /\ (cfg.any[e] # 0 - 1 \/ \E s \in 1..cfg.n : cfg.trans[e][s] # 0 - 1)

CondTrue(cfg, e, d) == /\ (cfg.cond[e] \in {1, 3} => d.cond = 1)
                       /\ (cfg.cond[e] \in {2, 3} => d.condf = 1)

NoTrans(cfg, e, s) == IF cfg.on_notrans THEN <<Rec("notrans", e, 0, 0, s, 0, 0)>> ELSE <<>>

Result(ret, st, out, log) == [ret |-> ret, st |-> st, out |-> out, log |-> log]

(* completion of an accepted transition: output update from calc_output (= the state),  *)
(* then on_enter events carrying the new state and output                                *)
NewOut(cfg, st, out) == IF cfg.hold[st] THEN out ELSE st
Finish(cfg, st, out, log) ==
    LET o == NewOut(cfg, st, out) IN
    Result(IF cfg.on_enter[st] /\ cfg.nbad[st] THEN "raised" ELSE "true", st, o,
           log \o (IF out # o /\ cfg.on_output THEN <<Rec("out", 0, 0, 0, out, o, 0)>> ELSE <<>>)
               \o (IF cfg.on_enter[st] THEN <<Rec("on_enter", st, 0, 0, o, 0, 0)>> ELSE <<>>))

(* a nested event() call made by the entry action of state st: [acc, target, log] *)
Request(cfg, st, out, ch, d, log) ==
    IF ch.goto # 0 THEN [acc |-> TRUE, target |-> ch.goto, log |-> log]
    ELSE LET t == Target(cfg, ch.e, st) IN
         IF t <= 0 THEN [acc |-> FALSE, target |-> 0, log |-> log \o NoTrans(cfg, ch.e, st)]
         ELSE IF out = UNDEF THEN [acc |-> TRUE, target |-> t, log |-> log]      \* no cond yet
         ELSE [acc |-> CondTrue(cfg, ch.e, d), target |-> t,
               log |-> log \o Cbs("cond", cfg.cond[ch.e], ch.e, d.tag, d.tag)]

(* the exit action of state s sends an event to its own FSM: refused, fatal *)
XExit(cfg, s, d) == cfg.exit[s] # 0 /\ cfg.xchain[s] /\ d.xc = 1

(* one link: enter `target` because of the event with data d; d0 = data of the first    *)
(* event of the chain; k = entry actions already run in this chain                       *)
RECURSIVE Link(_, _, _, _, _, _, _)
Link(cfg, target, d, d0, out, k, log) ==
    IF k >= 3 * cfg.n THEN Result("error", target, out, log)          \* endless chain
    ELSE
    LET seen == IF ChainUpdatesCtx THEN d.tag ELSE d0.tag
        log1 == log \o Cbs("enter", cfg.enter[target], target, seen, d.tag)
        ch   == cfg.chain[target]
        sch  == IF ChainUpdatesCtx THEN d.chain ELSE d0.chain      \* the flag the action reads
    IN  IF ch.on /\ (ch.always \/ sch = 1)
        THEN LET nd  == [tag |-> ch.tag, chain |-> ch.prop, cond |-> ch.cnd, condf |-> ch.cnd, xc |-> d.xc]
                 req == Request(cfg, target, out, ch, nd, log1)
                 \* the requesting entry action goes on after event() returned and must still
                 \* see the data of its own event
                 Aft(lg) == lg \o <<Rec("after", target, IF cfg.enter[target] \in {1, 3} THEN 0 ELSE 1,
                                         seen, 0, 0, d.tag)>>
             IN  IF ~req.acc
                 THEN (IF ch.double    \* the same request again: rejected again, logged again
                       THEN Finish(cfg, target, out, Aft(Request(cfg, target, out, ch, nd, req.log).log))
                       ELSE Finish(cfg, target, out, Aft(req.log)))
                 ELSE IF ch.double THEN Result("error", target, out, req.log)   \* two requests
                 ELSE IF XExit(cfg, target, nd) THEN Result("error", target, out, req.log)
                 ELSE LET seenx == IF ChainUpdatesCtx THEN nd.tag ELSE d0.tag IN
                      Link(cfg, req.target, nd, d0, out, k + 1,
                           Aft(req.log) \o Cbs("exit", cfg.exit[target], target, seenx, nd.tag))
        ELSE Finish(cfg, target, out, log1)

(* ev = [goto |-> state or 0, e |-> event or 0, d |-> data] *)
Handle(cfg, st, out, ev) ==
    IF ev.goto = 0 /\ ~Known(cfg, ev.e) THEN Result("unknown", st, out, <<>>)
    ELSE
    LET d == ev.d
        t == IF ev.goto # 0 THEN ev.goto ELSE Target(cfg, ev.e, st)
        condlog == IF ev.goto = 0 /\ out # UNDEF
                   THEN Cbs("cond", cfg.cond[ev.e], ev.e, d.tag, d.tag) ELSE <<>>
        condok == ev.goto # 0 \/ out = UNDEF \/ CondTrue(cfg, ev.e, d)
    IN  IF t <= 0 THEN Result("false", st, out, NoTrans(cfg, ev.e, st))
        ELSE IF ~condok THEN Result("false", st, out, condlog)
        ELSE IF out # UNDEF /\ XExit(cfg, st, d) THEN Result("error", st, out, condlog)
        ELSE LET exitlog == IF out # UNDEF
                            THEN Cbs("exit", cfg.exit[st], st, d.tag, d.tag) \o
                                 (IF cfg.on_exit[st] THEN <<Rec("on_exit", st, 0, 0, out, 0, 0)>> ELSE <<>>)
                            ELSE <<>>
             IN  Link(cfg, t, d, d, out, 0, condlog \o exitlog)

(* ---- properties of one result r = Handle(cfg, st, out, ev) ---- *)
Kinds(log) == {log[i].k : i \in DOMAIN log}
RejectChangesNothing(st, out, r) ==
    r.ret \in {"false", "unknown"} => /\ r.st = st /\ r.out = out
                                      /\ Kinds(r.log) \subseteq {"cond", "notrans"}
(* the only visible state of an accepted event is the final one *)
IntermediateInvisible(cfg, out, r) ==
    r.ret = "true" =>
        /\ \A i \in DOMAIN r.log : r.log[i].k = "on_enter" => r.log[i].n = r.st /\ r.log[i].a = r.out
        /\ \A i \in DOMAIN r.log : r.log[i].k = "out" => r.log[i].b = r.out /\ r.log[i].a = out
        /\ \A i, j \in DOMAIN r.log : (r.log[i].k = "out" /\ r.log[j].k = "out") => i = j
        /\ r.out = NewOut(cfg, r.st, out)
        \* the entered state announces itself even when it leaves the output alone
        /\ (cfg.on_enter[r.st] => \E i \in DOMAIN r.log : r.log[i].k = "on_enter")
(* every cond / enter / exit action sees the data of the event that caused it *)
DataOfCausingEvent(r) ==
    \A i \in DOMAIN r.log : r.log[i].k \in {"cond", "enter", "exit", "after"} => r.log[i].tag = r.log[i].c
(* documented order: exit, on_exit, enter, output, on_enter *)
Pos(log, k) == IF \E i \in DOMAIN log : log[i].k = k
               THEN CHOOSE i \in DOMAIN log : log[i].k = k /\ \A j \in DOMAIN log : log[j].k = k => i <= j
               ELSE 0
LastPos(log, k) == IF \E i \in DOMAIN log : log[i].k = k
               THEN CHOOSE i \in DOMAIN log : log[i].k = k /\ \A j \in DOMAIN log : log[j].k = k => i >= j
               ELSE 0
Before(log, a, b) == (Pos(log, a) # 0 /\ Pos(log, b) # 0) => Pos(log, a) < Pos(log, b)
OrderOfActions(r) ==
    r.ret = "true" => /\ Before(r.log, "exit", "on_exit") /\ Before(r.log, "on_exit", "enter")
                      /\ (LastPos(r.log, "enter") # 0 /\ Pos(r.log, "out") # 0
                             => LastPos(r.log, "enter") < Pos(r.log, "out"))
                      /\ Before(r.log, "out", "on_enter")
                      /\ (LastPos(r.log, "enter") # 0 /\ Pos(r.log, "on_enter") # 0
                             => LastPos(r.log, "enter") < Pos(r.log, "on_enter"))
=============================================================================
