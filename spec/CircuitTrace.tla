--------------------------- MODULE CircuitTrace ---------------------------
(* Trace specification for circuit construction / finalisation (C15).                     *)
(* hdr: script (user blocks as in Circuit.tla), events (destinations given by object or   *)
(* name), ctrls (filter control blocks / add_output sources given by object or name).     *)
(* lines: final(...)   - the structure read from the real circuit after finalisation      *)
(*        frozen(...)  - attempts to add a block / connect / replace the storage          *)
(*        invalid(...) - outcome of a script with an invalid reference                    *)
EXTENDS TraceLib
SecondPass == TRUE
VARIABLES script, exist, iconn, oconn, todo, pass, frozen, tid, l
C == INSTANCE Circuit
vars == <<script, exist, iconn, oconn, todo, pass, frozen>>
H(t) == Traces[t].hdr
Ev(t) == Traces[t].ev
SeqSet(s) == {s[i] : i \in DOMAIN s}
TraceInit == /\ tid \in 1..NTraces /\ l = 1
             /\ script = H(tid).script /\ exist = {} /\ iconn = <<>> /\ oconn = <<>>
             /\ todo = <<>> /\ pass = 0 /\ frozen = FALSE
Extra(t) == {H(t).ctrls[i].blk : i \in {j \in DOMAIN H(t).ctrls : H(t).ctrls[j].inv}}
Sig(ri) == [j \in DOMAIN ri |-> IF ri[j].single THEN 0 - 1 ELSE Len(ri[j].refs)]
Final(e) ==
    /\ ~frozen /\ frozen' = TRUE
    /\ SeqSet(e.exist) = C!BlocksX(script, Extra(tid))               \* exactly the user blocks + one inverter per shortcut
    /\ Len(e.exist) = Cardinality(C!BlocksX(script, Extra(tid)))
    /\ \A i \in DOMAIN e.blocks :
          LET r == e.blocks[i]  ri == C!ResolvedIns(script, r.id) IN
          /\ r.ins = ri                                  \* every reference resolved to the right object
          /\ r.conf = ri                                 \* get_conf() describes the same structure
          /\ r.sig = Sig(ri)                             \* input_signature() as well
          /\ SeqSet(r.iconn) = C!IConn(script, r.id)
          /\ SeqSet(r.oconn) = C!OConnX(script, Extra(tid), r.id)     \* both directions of every connection
    /\ e.dests = [i \in DOMAIN H(tid).events |-> H(tid).events[i].dest]   \* names -> blocks
    /\ e.ctrls = [i \in DOMAIN H(tid).ctrls |-> IF H(tid).ctrls[i].inv THEN Len(script) + H(tid).ctrls[i].blk
                                                ELSE H(tid).ctrls[i].blk]
    /\ UNCHANGED <<script, exist, iconn, oconn, todo, pass>>
Frozen(e) == /\ frozen
             /\ e.add = "refused" /\ e.connect = "refused" /\ e.storage = "refused"
             /\ UNCHANGED vars
Invalid(e) == /\ H(tid).invalid # "none" /\ e.failed /\ UNCHANGED vars
(* a finalize() that failed (unknown name) can be repeated once the block exists *)
Retry(e) == e.first_failed /\ e.resolved /\ ~frozen /\ UNCHANGED vars
Step == /\ l <= Len(Ev(tid))
        /\ LET e == Ev(tid)[l] IN
             \/ e.ev = "final" /\ H(tid).invalid = "none" /\ Final(e)
             \/ e.ev = "frozen" /\ Frozen(e)
             \/ e.ev = "started" /\ frozen /\ UNCHANGED vars
             \/ e.ev = "invalid" /\ Invalid(e)
             \/ e.ev = "retry" /\ Retry(e)
        /\ l' = l + 1 /\ UNCHANGED tid
TraceSpec == TraceInit /\ [][Step]_<<vars, tid, l>>
ASSUME InitRegs
Book == Reach(tid, l, <<frozen>>)
LenOf(t) == Len(Ev(t))
Accepted == AcceptedAll(LenOf)
=============================================================================
