-------------------------- MODULE OutputAsyncTrace --------------------------
(* Monitor for OutputAsync (C12): the most permissive machine satisfying the property.   *)
(* hdr: mode ("w" | "c" | "s"), guard, stop_timeout (ticks), stopdata (BOOLEAN).          *)
(* lines (t = virtual time in ticks; ids are numbered in arrival order, 9 = stop_data):   *)
(*   put(id)  out(n)  start(id)  end(id, how)  res(id, kind, same)  stop  stopped  end    *)
EXTENDS TraceLib
VARIABLES arr, st, ehow, res, outv, incs, guarding, phase, stopT, now, tid, l
vars == <<arr, st, ehow, res, outv, incs, guarding, phase, stopT, now>>
H(t) == Traces[t].hdr
Ev(t) == Traces[t].ev
Ids == 1..9
S == 9
NONE == 0 - 1
TraceInit == /\ tid \in 1..NTraces /\ l = 1
             /\ arr = [i \in Ids |-> NONE] /\ st = [i \in Ids |-> "new"] /\ ehow = [i \in Ids |-> "none"]
             /\ res = [i \in Ids |-> "none"] /\ outv = 0 /\ incs = 0 /\ guarding = {}
             /\ phase = "run" /\ stopT = NONE /\ now = 0
Known == {i \in Ids : arr[i] # NONE}
Running == {i \in Ids : st[i] = "running"}
NewerKnown(i) == \E j \in Known : j > i
(* the guard sleep ends exactly guard ticks after the coroutine: never late *)
OnTime(t) == \A g \in guarding : g.until >= t

Put(e) == /\ arr[e.id] = NONE
          /\ (IF e.id = S THEN phase = "stopping" /\ H(tid).stopdata ELSE phase = "run")
          /\ \A j \in Known : j < e.id                       \* ids follow the arrival order
          /\ arr' = [arr EXCEPT ![e.id] = e.t] /\ st' = [st EXCEPT ![e.id] = "queued"]
          /\ UNCHANGED <<ehow, res, outv, incs, guarding, phase, stopT>>
(* the output counts the runs not yet finished (a run includes its guard time) *)
Out(e) == /\ UNCHANGED <<arr, st, ehow, res, phase, stopT>>
          /\ \/ /\ e.n = outv + 1 /\ outv' = e.n /\ incs' = incs + 1 /\ UNCHANGED guarding
             \/ /\ e.n = outv - 1 /\ outv' = e.n /\ UNCHANGED incs
                /\ \E g \in guarding : /\ g.until = e.t            \* guard time neither shortened nor exceeded
                                       /\ \A g2 \in guarding : g2.until = e.t => g.id <= g2.id
                                       /\ guarding' = guarding \ {g}
Start(e) ==
    /\ st[e.id] = "queued" /\ incs > 0 /\ incs' = incs - 1
    /\ st' = [st EXCEPT ![e.id] = "running"]
    /\ (e.id # S => st[S] \in {"new", "queued"})                   \* stop_data is processed last
    /\ (e.id = S => (\A j \in Known \ {S} : res[j] # "none") /\ Running = {} /\ guarding = {})
    /\ CASE H(tid).mode = "w" -> /\ Running = {} /\ guarding = {}                  \* one at a time, guard
                                 /\ \A j \in Known : st[j] = "queued" => j >= e.id   \* arrival order
         [] H(tid).mode = "c" -> /\ Running = {} /\ guarding = {}
                                 /\ \A j \in Known : st[j] = "queued" => j >= e.id   \* older ones are resolved
         [] H(tid).mode = "s" -> (e.id = S \/ e.t = arr[e.id])                       \* at once
    /\ UNCHANGED <<arr, ehow, res, outv, guarding, phase, stopT>>
(* how: ok | fail | cancelled (by the block) | selfcancel (the user's coroutine ended     *)
(* with a CancelledError of its own: reported as cancelled, the block carries on)         *)
(* tcancelled (chosen by the monitor): cancelled because stop_timeout ran out - only at    *)
(* that very moment, and whatever the mode                                                *)
AtTimeout(t) == phase = "stopping" /\ t = stopT + H(tid).stop_timeout
ByNewer(e) == H(tid).mode = "c" /\ NewerKnown(e.id)
End(e) == /\ st[e.id] = "running"
          /\ (e.how = "cancelled" => (ByNewer(e) \/ AtTimeout(e.t)))           \* only for a newer event / at the time-out
          /\ st' = [st EXCEPT ![e.id] = "ended"]
          /\ ehow' = [ehow EXCEPT ![e.id] = IF e.how = "cancelled" /\ ~ByNewer(e) THEN "tcancelled" ELSE e.how]
          /\ guarding' = guarding \cup {[id |-> e.id, until |-> e.t + H(tid).guard]}
          /\ UNCHANGED <<arr, res, outv, incs, phase, stopT>>
Res(e) == /\ arr[e.id] # NONE /\ res[e.id] = "none" /\ e.same             \* exactly one, own data
          /\ res' = [res EXCEPT ![e.id] = e.kind]
          /\ \/ /\ e.kind = "success" /\ st[e.id] = "ended" /\ ehow[e.id] = "ok" /\ UNCHANGED st
             \/ /\ e.kind = "error" /\ st[e.id] = "ended" /\ ehow[e.id] = "fail" /\ UNCHANGED st
             \/ /\ e.kind = "cancel" /\ st[e.id] = "ended" /\ ehow[e.id] \in {"cancelled", "selfcancel", "tcancelled"} /\ UNCHANGED st
             \/ /\ e.kind = "cancel" /\ st[e.id] = "queued"                        \* discarded
                /\ H(tid).mode = "c" /\ NewerKnown(e.id)
                /\ st' = [st EXCEPT ![e.id] = "discarded"]
          /\ UNCHANGED <<arr, ehow, outv, incs, guarding, phase, stopT>>
Stop(e) == /\ phase = "run" /\ phase' = "stopping" /\ stopT' = e.t
           /\ UNCHANGED <<arr, st, ehow, res, outv, incs, guarding>>
(* stop_timeout ran out before the pending work was done: what is left is abandoned, the  *)
(* stop itself is still bounded (plus one guard time, which a cancellation cannot         *)
(* shorten)                                                                               *)
TimedOut == \E i \in Ids : ehow[i] = "tcancelled"
Stopped(e) == /\ phase = "stopping" /\ phase' = "stopped"
              /\ (TimedOut \/ \A i \in Known : res[i] # "none")         \* every put was resolved
              /\ (H(tid).stopdata => arr[S] # NONE)
              /\ Running = {} /\ guarding = {} /\ outv = 0 /\ incs = 0  \* output back to 0
              /\ e.t <= stopT + H(tid).stop_timeout + H(tid).guard
              /\ UNCHANGED <<arr, st, ehow, res, outv, incs, guarding, stopT>>
EndLine(e) == /\ phase = "stopped" /\ e.leftover = 0 /\ phase' = "ended"
              /\ UNCHANGED <<arr, st, ehow, res, outv, incs, guarding, stopT>>
Step == /\ l <= Len(Ev(tid))
        /\ LET e == Ev(tid)[l] IN
             /\ e.t >= now /\ now' = e.t /\ OnTime(e.t)
             /\ (e.ev \in {"put", "start", "end", "res"} => e.id \in Ids)    \* (a run that lost its argument)
             /\ \/ e.ev = "put" /\ Put(e)
                \/ e.ev = "out" /\ Out(e)
                \/ e.ev = "start" /\ Start(e)
                \/ e.ev = "end" /\ End(e)
                \/ e.ev = "res" /\ Res(e)
                \/ e.ev = "stop" /\ Stop(e)
                \/ e.ev = "stopped" /\ Stopped(e)
                \/ e.ev = "fin" /\ EndLine(e)
        /\ l' = l + 1 /\ UNCHANGED tid
TraceSpec == TraceInit /\ [][Step]_<<vars, tid, l>>
ASSUME InitRegs
Book == /\ Reach(tid, l, <<st, res, outv, incs, guarding, phase, now>>)
        /\ Soft(tid, l, "OneAtATime", H(tid).mode \in {"w", "c"} => Cardinality(Running) <= 1)
        /\ Soft(tid, l, "OutputCountsRuns", outv = Cardinality(Running) + Cardinality(guarding) + incs)
LenOf(t) == Len(Ev(t))
Accepted == AcceptedAll(LenOf)
=============================================================================
