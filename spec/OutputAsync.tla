---------------------------- MODULE OutputAsync ----------------------------
(* The OutputAsync block (edzed/blocklib/sblocks2.py), property C12: an operational      *)
(* model of the three modes on a tick grid.  Events 1..MaxPuts arrive ('put'), each with *)
(* a run duration and a flag "the coroutine raises"; S = the stop_data event.            *)
(*   wait   : one run at a time, in arrival order, next start after the guard time       *)
(*   cancel : one run at a time; a newer event cancels the running one; waiting events   *)
(*            except the newest are discarded and reported as cancelled                  *)
(*   start  : every event starts its own run at once; stop_data runs after all others    *)
(* A run = coroutine + guard sleep (shielded); the output counts runs not yet finished.  *)
(* Start / Cancel / Finish / Release are urgent: time passes only when none is enabled.  *)
EXTENDS Integers, Sequences, FiniteSets, TLC, Json

CONSTANTS Mode, Guard, MaxPuts, MaxNow, StopData, Durs, MinStop, MaxLevel
S == 9                                  \* id of the stop_data event
Ids == (1..MaxPuts) \cup {S}
NONE == 0 - 1

VARIABLES now, nput, arr, dur, fail, queue, running, endAt, guarding, res, started, how, out,
          phase, pendingS, lastEnd, gapok, hist
vars == <<now, nput, arr, dur, fail, queue, running, endAt, guarding, res, started, how, out,
          phase, pendingS, lastEnd, gapok, hist>>
View == <<now, nput, arr, dur, fail, queue, running, endAt, guarding, res, started, how, out,
          phase, pendingS, lastEnd, gapok>>

Init == /\ now = 0 /\ nput = 0
        /\ arr = [i \in Ids |-> NONE] /\ dur = [i \in Ids |-> 0] /\ fail = [i \in Ids |-> FALSE]
        /\ queue = <<>> /\ running = {} /\ endAt = [i \in Ids |-> NONE] /\ guarding = {}
        /\ res = [i \in Ids |-> "none"] /\ started = <<>> /\ how = [i \in Ids |-> "none"]
        /\ out = 0 /\ phase = "run" /\ pendingS = FALSE /\ lastEnd = NONE /\ gapok = TRUE
        /\ hist = <<>>

Known == {i \in Ids : arr[i] # NONE}
Idle == running = {} /\ guarding = {}

Put == /\ phase = "run" /\ nput < MaxPuts
       /\ \E d \in Durs, f \in BOOLEAN :
            /\ nput' = nput + 1
            /\ arr' = [arr EXCEPT ![nput + 1] = now] /\ dur' = [dur EXCEPT ![nput + 1] = d]
            /\ fail' = [fail EXCEPT ![nput + 1] = f]
            /\ hist' = Append(hist, [op |-> "put", t |-> now, d |-> d, f |-> f])
       /\ queue' = Append(queue, nput + 1)
       /\ UNCHANGED <<now, running, endAt, guarding, res, started, how, out, phase, pendingS, lastEnd, gapok>>

Begin(id) == /\ running' = running \cup {id} /\ endAt' = [endAt EXCEPT ![id] = now + dur[id]]
             /\ started' = Append(started, id) /\ out' = out + 1
             /\ gapok' = (gapok /\ (Mode = "s" \/ lastEnd = NONE \/ now >= lastEnd + Guard))

StartW == /\ Mode = "w" /\ Idle /\ queue # <<>>
          /\ Begin(Head(queue)) /\ queue' = Tail(queue)
          /\ UNCHANGED <<now, nput, arr, dur, fail, guarding, res, how, phase, pendingS, lastEnd, hist>>
StartC == /\ Mode = "c" /\ Idle /\ queue # <<>>
          /\ LET newest == queue[Len(queue)] IN
             /\ Begin(newest) /\ queue' = <<>>
             /\ res' = [i \in Ids |-> IF \E k \in 1..(Len(queue) - 1) : queue[k] = i THEN "cancel" ELSE res[i]]
          /\ UNCHANGED <<now, nput, arr, dur, fail, guarding, how, phase, pendingS, lastEnd, hist>>
StartS == /\ Mode = "s" /\ queue # <<>>
          /\ Begin(Head(queue)) /\ queue' = Tail(queue)
          /\ UNCHANGED <<now, nput, arr, dur, fail, guarding, res, how, phase, pendingS, lastEnd, hist>>
(* a newer event is waiting: the running coroutine is cancelled at once *)
CancelC == /\ Mode = "c" /\ queue # <<>>
           /\ \E id \in running :
                /\ running' = running \ {id} /\ how' = [how EXCEPT ![id] = "cancelled"]
                /\ res' = [res EXCEPT ![id] = "cancel"]
                /\ guarding' = guarding \cup {[id |-> id, until |-> now + Guard]} /\ lastEnd' = now
           /\ UNCHANGED <<now, nput, arr, dur, fail, queue, endAt, started, out, phase, pendingS, gapok, hist>>
Finish == \E id \in running :
            /\ endAt[id] = now
            /\ running' = running \ {id}
            /\ how' = [how EXCEPT ![id] = IF fail[id] THEN "fail" ELSE "ok"]
            /\ res' = [res EXCEPT ![id] = IF fail[id] THEN "error" ELSE "success"]
            /\ guarding' = guarding \cup {[id |-> id, until |-> now + Guard]} /\ lastEnd' = now
            /\ UNCHANGED <<now, nput, arr, dur, fail, queue, endAt, started, out, phase, pendingS, gapok, hist>>
Release == \E g \in guarding :
            /\ g.until = now /\ guarding' = guarding \ {g} /\ out' = out - 1
            /\ UNCHANGED <<now, nput, arr, dur, fail, queue, running, endAt, res, started, how, phase,
                           pendingS, lastEnd, gapok, hist>>
Stop == /\ phase = "run" /\ now >= MinStop /\ phase' = "stopping"
        /\ hist' = Append(hist, [op |-> "stop", t |-> now, d |-> 0, f |-> FALSE])
        /\ IF StopData
           THEN \E d \in Durs :
                  /\ arr' = [arr EXCEPT ![S] = now] /\ dur' = [dur EXCEPT ![S] = d]
                  /\ IF Mode = "s" THEN pendingS' = TRUE /\ UNCHANGED queue
                                   ELSE queue' = Append(queue, S) /\ UNCHANGED pendingS
           ELSE UNCHANGED <<arr, dur, queue, pendingS>>
        /\ UNCHANGED <<now, nput, fail, running, endAt, guarding, res, started, how, out, lastEnd, gapok>>
(* start mode: stop_data is processed when everything else is finished *)
StartStopData == /\ Mode = "s" /\ pendingS /\ queue = <<>> /\ Idle
                 /\ Begin(S) /\ pendingS' = FALSE
                 /\ UNCHANGED <<now, nput, arr, dur, fail, queue, guarding, res, how, phase, lastEnd, hist>>
Stopped == /\ phase = "stopping" /\ queue = <<>> /\ Idle /\ ~pendingS
           /\ phase' = "stopped"
           /\ UNCHANGED <<now, nput, arr, dur, fail, queue, running, endAt, guarding, res, started, how, out,
                          pendingS, lastEnd, gapok, hist>>
Urgent == \/ ENABLED StartW \/ ENABLED StartC \/ ENABLED StartS \/ ENABLED CancelC
          \/ ENABLED Finish \/ ENABLED Release \/ ENABLED StartStopData \/ ENABLED Stopped
Tick == /\ ~Urgent /\ (now < MaxNow \/ phase = "stopping") /\ phase # "stopped" /\ now' = now + 1
        /\ UNCHANGED <<nput, arr, dur, fail, queue, running, endAt, guarding, res, started, how, out,
                       phase, pendingS, lastEnd, gapok, hist>>
Progress == StartW \/ StartC \/ StartS \/ CancelC \/ Finish \/ Release \/ StartStopData \/ Stopped \/ Tick
Next == Put \/ Stop \/ Progress
Spec == Init /\ [][Next]_vars
FairSpec == Spec /\ WF_vars(Progress)

(* ---- the clauses of C12 ---- *)
Newer(i, j) == arr[j] # NONE /\ (j = S \/ (i # S /\ j > i))          \* j arrived after i
M1_EveryPutResolved == phase = "stopped" => \A i \in Known : res[i] # "none"
M2_OneAtATime == Mode \in {"w", "c"} => Cardinality(running) + Cardinality(guarding) <= 1
M3w_ArrivalOrder == Mode = "w" => \A k \in DOMAIN started : started[k] = (IF k <= nput THEN k ELSE S)
M3c_CancelOnlyForNewer == \A i \in Known : res[i] = "cancel" => (Mode = "c" /\ \E j \in Known : Newer(i, j))
M3s_StartAtOnce == Mode = "s" => \A i \in 1..nput : (i \in running \/ res[i] # "none" \/ \E k \in DOMAIN queue : queue[k] = i)
M4_OutputCountsRuns == out = Cardinality(running) + Cardinality(guarding)
M5_GuardRespected == gapok
M6_StopDataLast == (phase = "stopped" /\ StopData) => started[Len(started)] = S
Quiet == phase = "stopped" => (out = 0 /\ running = {} /\ guarding = {} /\ queue = <<>>)
StopCompletes == (phase = "stopping") ~> (phase = "stopped")
Bound == TLCGet("level") <= MaxLevel
Export == IF phase = "stopped" \/ TLCGet("level") >= MaxLevel
          THEN PrintT(<<"EXPORT", ToJson([mode |-> Mode, guard |-> Guard, stopdata |-> StopData,
                                          sdur |-> dur[S], hist |-> hist, now |-> now])>>) /\ FALSE
          ELSE TRUE
=============================================================================
