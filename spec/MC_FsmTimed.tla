---------------------------- MODULE MC_FsmTimed ----------------------------
(* Exhaustive model of one timed FSM on a tick grid: all 2-state machines with every     *)
(* combination of timed events (table event / Goto / none), class and instance           *)
(* durations from {None, 0, 1, 2, INF}, external events with and without a 'duration'    *)
(* item arriving before, at and after the expiry, stop at any time.                      *)
(* The implementation-shaped world (handles + _active_timer) must refine the functional  *)
(* definition Handle() used by the monitor.                                              *)
EXTENDS Integers, Sequences, FiniteSets, TLC, Json
CONSTANTS CancelOnExit, FiredTimerCleared, RestoreTimerFirst, StartMode, MaxNow, Tables, MaxLevel, MinStop
N == 2
M == 2
VARIABLES cfg, w, tm, now, inited, fired, stale, stopped, dead, hist
F == INSTANCE FsmTimed
vars == <<cfg, w, tm, now, inited, fired, stale, stopped, dead, hist>>
View == <<cfg, w, tm, now, inited, fired, stale, stopped, dead>>
NONEV == F!NONEV
INFV == F!INFV
ABSENTV == F!ABSENTV
T == IF Tables = "all" THEN {0 - 1, 1, 2} ELSE {1, 2}
Durs == {NONEV, 0, 1, 2, INFV}
SomeTables == {<<<<2, 1>>, <<1, 2>>>>, <<<<2, 0 - 1>>, <<0 - 1, 1>>>>, <<<<2, 2>>, <<0, 1>>>>}
Init == /\ \E tr \in (IF Tables = "all" THEN [1..M -> [1..N -> T]] ELSE SomeTables), te \in [1..N -> {0, 1, 2, 101, 102}],
             cd \in [1..N -> Durs], idr \in {<<ABSENTV, ABSENTV>>, <<1, 2>>},
             cf \in {<<<<0, 0>>, <<0, 0>>>>, <<<<0, 1>>, <<1, 0>>>>}, xb \in {<<0, 0>>, <<0, 1>>}, ec \in {<<0, 0>>, <<2, 0>>, <<0, 101>>} :
             /\ (xb # <<0, 0>> => (idr = <<ABSENTV, ABSENTV>> /\ cf = <<<<0, 0>>, <<0, 0>>>>))
             /\ (ec # <<0, 0>> => (idr = <<ABSENTV, ABSENTV>> /\ cf = <<<<0, 0>>, <<0, 0>>>> /\ xb = <<0, 0>>
                                   /\ F!Known([n |-> N, m |-> M, trans |-> tr, any |-> <<0 - 1, 0 - 1>>], 2)))
             /\ \A s \in 1..N : te[s] = 0 => (cd[s] = NONEV /\ idr[s] = ABSENTV)
             /\ \A s \in 1..N : te[s] \in 1..M => F!Known([n |-> N, m |-> M, trans |-> tr, any |-> <<0 - 1, 0 - 1>>], te[s])
             /\ cfg = [n |-> N, m |-> M, trans |-> tr, any |-> <<0 - 1, 0 - 1>>, cf |-> cf,
                       tev |-> te, cdur |-> cd, idur |-> idr, init |-> 1, xbad |-> xb, echain |-> ec]
        /\ w = F!World(0, {}, 0, 1, "none") /\ tm = F!NoTimer /\ now = 0
        /\ inited = FALSE /\ fired = {} /\ stale = FALSE /\ stopped = FALSE /\ dead = FALSE /\ hist = <<>>

Norm(x) == IF x.hs = {} /\ x.act = 0 THEN F!World(x.st, {}, 0, 1, x.ret) ELSE x
Apply(wn, r) == /\ w' = Norm(wn) /\ tm' = r.tm
                /\ dead' = (r.ret = "error")
                /\ inited' = (inited \/ r.ret = "true")
                /\ UNCHANGED <<cfg, now, stopped>>

(* initialisation: Goto(initdef) on the uninitialised FSM *)
Start == /\ ~inited /\ ~dead /\ ~stopped /\ StartMode # "restore"
         /\ Apply(F!IEnter(cfg, w, cfg.init, ABSENTV, now, FALSE, 0, FALSE),
                  F!Enter(cfg, cfg.init, ABSENTV, now, FALSE, 0, FALSE))
         /\ UNCHANGED <<fired, stale, hist>>

(* ... or a start from a saved state (any state, timer with 1..2 ticks left or none), the  *)
(* output events of the restored state optionally coming back as an event                 *)
StartRestored ==
    /\ ~inited /\ ~dead /\ ~stopped /\ StartMode # "fresh"
    /\ \E s \in 1..N, due \in {0 - 1, now + 1, now + 2}, fb \in {0} \cup (1..M) \cup {101, 102} :
          /\ (due >= 0) = (cfg.tev[s] # 0)
          /\ Apply(F!IRestore(cfg, w, s, due, fb, now), F!RestoreFb(cfg, s, due, fb, now))
          /\ hist' = Append(hist, [op |-> "restore", t |-> now, e |-> fb, d |-> due, c |-> FALSE])
    /\ UNCHANGED <<fired, stale>>

Ext == /\ inited /\ ~dead /\ ~stopped
       /\ \E ev \in (1..M) \cup {101, 102}, d \in {ABSENTV, 0, 2, INFV}, c \in (IF cfg.echain = <<0, 0>> THEN {FALSE} ELSE BOOLEAN) :
             /\ Apply(F!IHandleC(cfg, w, ev, d, now, TRUE, c), F!HandleC(cfg, w.st, tm, ev, d, now, TRUE, c))
             /\ hist' = Append(hist, [op |-> "ext", t |-> now, e |-> ev, d |-> d, c |-> c])
       /\ UNCHANGED <<fired, stale>>

(* the loop runs a due handle, whichever it is *)
Fire == /\ ~dead
        /\ \E h \in w.hs :
              /\ h.due = now
              /\ ~stopped
              /\ stale' = (stale \/ ~(tm.due = now /\ h.id = w.act))
              /\ LET wn == F!IFire(cfg, w, h, now) IN
                 fired' = {g \in fired \cup {h} : g.id = wn.act /\ g \notin wn.hs}
              /\ Apply(F!IFire(cfg, w, h, now),
                            IF tm.due = now /\ tm.ev = h.ev THEN F!Expire(cfg, w.st, tm, now)
                            ELSE F!Res("stale", w.st, tm))
              /\ UNCHANGED hist

Tick == /\ now < MaxNow /\ \A h \in w.hs : h.due > now
        /\ now' = now + 1 /\ UNCHANGED <<cfg, w, tm, inited, fired, stale, stopped, dead, hist>>

(* FSM.stop(): also after an error (the simulator stops every started block) *)
Stop == /\ ~stopped /\ now >= MinStop
        /\ stopped' = TRUE /\ w' = F!StopTimer(w) /\ tm' = F!NoTimer
        /\ UNCHANGED <<cfg, now, inited, fired, stale, dead>>
        /\ hist' = Append(hist, [op |-> "stop", t |-> now, e |-> 0, d |-> 0, c |-> FALSE])

Next == Start \/ StartRestored \/ Ext \/ Fire \/ Tick \/ Stop
Spec == Init /\ [][Next]_vars

(* at most one timer is pending per FSM, and it is the one the FSM refers to *)
AtMostOnePending == Cardinality(w.hs) <= 1 /\ \A h \in w.hs : h.id = w.act
(* the scheduled handles are exactly the timer the functional definition predicts *)
Refines == (~dead) => w.hs = (IF tm = F!NoTimer THEN {} ELSE {h \in w.hs : h.due = tm.due /\ h.ev = tm.ev}) /\
                      (tm # F!NoTimer => w.hs # {})
(* a stale timed event is never delivered: the timer that fires is the current one *)
NoStaleFire == ~stale
(* what get_state() reports is the pending timer: never a timer that has fired *)
ReportedIsPending == (~dead) => F!Reported(w, fired) = tm
NothingAfterStop == stopped => w.hs = {}
(* a timer never fires late: time does not pass a due handle (by Tick) - and every     *)
(* pending timer is in the future or due now                                            *)
OnTime == \A h \in w.hs : h.due >= now
StateValid == w.st \in 0..N
Bound == TLCGet("level") <= MaxLevel
(* behaviour export (simulation mode): the environment history of each behaviour *)
Export == IF stopped \/ dead \/ TLCGet("level") >= MaxLevel
          THEN PrintT(<<"EXPORT", ToJson([cfg |-> cfg, hist |-> hist, now |-> now])>>) /\ FALSE
          ELSE TRUE
=============================================================================
