--------------------------- MODULE CounterTrace ---------------------------
(* Trace specification for Counter (C20): each recorded event of the real block must be  *)
(* the corresponding Counter action, with the recorded output and return value.          *)
EXTENDS TraceLib
NoMod == 0 - 1
VARIABLES val, mod, initv, ret, tid, l
C == INSTANCE Counter
vars == <<val, mod, initv, ret>>
Hdr(t) == Traces[t].hdr
Ev(t) == Traces[t].ev
TraceInit == /\ tid \in 1..NTraces /\ l = 1
             /\ IF Hdr(tid).mod = 0          \* modulo 0: only the constructor is exercised
                THEN val = 0 /\ mod = 0 /\ initv = 0 /\ ret = C!Failed
                ELSE C!InitFrom(Hdr(tid).mod, Hdr(tid).init, Hdr(tid).restored, Hdr(tid).has_restored)
(* Amounts and values beyond TLC's 32-bit integers (and beyond the 53 bits a float holds     *)
(* exactly) are recorded as digits in base 2^15, most significant first, plus a sign; the  *)
(* reduction modulo M <= 2^15 is computed digit by digit (Horner), which is exact:         *)
(* (val + a) mod M = (val + (a mod M)) mod M.                                              *)
DigitBase == 32768
RECURSIVE HornerMod(_, _, _)
HornerMod(ds, m, acc) == IF ds = <<>> THEN acc ELSE HornerMod(Tail(ds), m, (acc * DigitBase + Head(ds)) % m)
BigRed(ds, neg, m) == LET r == HornerMod(ds, m, 0) IN IF neg THEN (m - r) % m ELSE r
BigOk == mod > 0 /\ mod <= DigitBase
IncBig(e) == BigOk /\ val' = (val + BigRed(e.digits, e.neg, mod)) % mod /\ UNCHANGED <<mod, initv>>
DecBig(e) == BigOk /\ val' = (val + mod - BigRed(e.digits, e.neg, mod)) % mod /\ UNCHANGED <<mod, initv>>
PutBig(e) == BigOk /\ val' = BigRed(e.digits, e.neg, mod) /\ UNCHANGED <<mod, initv>>
(* the first line of every trace is the observation after start-up *)
Observed(e) == /\ val' = e.out
               /\ ret' = [ok |-> e.ok, v |-> e.ret]
               /\ e.cerr = FALSE                     \* the simulation is never stopped
Step == /\ l <= Len(Ev(tid))
        /\ LET e == Ev(tid)[l] IN
             /\ \/ e.ev = "start" /\ UNCHANGED vars /\ e.out = val
                \/ e.ev = "inc"   /\ C!Inc(e.a)   /\ Observed(e)
                \/ e.ev = "dec"   /\ C!Dec(e.a)   /\ Observed(e)
                \/ e.ev = "put"   /\ C!Put(e.a)   /\ Observed(e)
                \/ e.ev = "reset" /\ C!Reset      /\ Observed(e)
                \/ e.ev = "inc_big" /\ IncBig(e) /\ Observed(e)
                \/ e.ev = "dec_big" /\ DecBig(e) /\ Observed(e)
                \/ e.ev = "put_big" /\ PutBig(e) /\ Observed(e)
                \/ e.ev = "putmissing" /\ C!PutMissing /\ Observed(e)
                \/ e.ev = "construct0" /\ ~C!ValidConfig(mod) /\ e.refused /\ UNCHANGED vars
        /\ l' = l + 1 /\ UNCHANGED tid
TraceSpec == TraceInit /\ [][Step]_<<vars, tid, l>>
ASSUME InitRegs
Book == /\ Reach(tid, l, vars)
        /\ Soft(tid, l, "InRange", mod = 0 \/ C!InRange)
        /\ Soft(tid, l, "ReturnIsOutput", C!ReturnIsOutput)
LenOf(t) == Len(Ev(t))
Accepted == AcceptedAll(LenOf)
=============================================================================
