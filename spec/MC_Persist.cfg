SPECIFICATION Spec
CONSTANT DisableOnError = "always"
INVARIANT StoreIsCurrent
INVARIANT NothingSavedIfStartFailed
INVARIANT StopSavesAll
INVARIANT RestartLaws
PROPERTY NoWriteAfterHandlerError
CHECK_DEADLOCK FALSE
