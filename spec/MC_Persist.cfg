SPECIFICATION Spec
CONSTANT DisableOnError = TRUE
INVARIANT StoreIsCurrent
INVARIANT NothingSavedIfStartFailed
INVARIANT StopSavesAll
INVARIANT RestartLaws
PROPERTY NoWriteAfterHandlerError
CHECK_DEADLOCK FALSE
