SPECIFICATION Spec
CONSTANTS ResetOnError = TRUE
 NN = 2
 Mode = "labels"
INVARIANT Released
INVARIANT Depth1
INVARIANT RecursionIsFatal
CHECK_DEADLOCK FALSE
