SPECIFICATION Spec
CONSTANTS SelectMin = TRUE
 NS = 2
 NC = 3
 Cyc = FALSE
 Fb = FALSE
INVARIANT IdleConsistent
INVARIANT BoundedWork
INVARIANT EvalSetSound
INVARIANT NoFalseAlarm
INVARIANT IdleOnlyIfSolvable
INVARIANT UnstableOnlyAtLimit
CHECK_DEADLOCK FALSE
