------------------------------ MODULE Filters ------------------------------
(* Event filters (edzed/block.py Event.send, edzed/blocklib/filters.py), property C16.   *)
(*                                                                                       *)
(* Event data is a function from keys (strings) to values (integers standing for Python  *)
(* objects).  A filter specification is a record with field k (kind); a pipeline is a    *)
(* sequence of filter specifications.  Value encoding: UNDEF is a distinguished integer, *)
(* Truthy(v) gives the Python truth value of what the integer stands for.                *)
EXTENDS Integers, Sequences

UNDEF == 0 - 1000
Truthy(v) == v # 0 /\ v > 0 - 1000       \* 0 and the codes <= -1000 (UNDEF, None, '', ()) are falsy
IsNum(v)  == v > 0 - 1000 /\ v < 800      \* the integer stands for itself
Abs(x) == IF x < 0 THEN 0 - x ELSE x

(* ---- dictionaries ---- *)
Put(d, k, v) == [x \in (DOMAIN d) \cup {k} |-> IF x = k THEN v ELSE d[x]]
Del(d, k)    == [x \in (DOMAIN d) \ {k} |-> d[x]]
Keep(d, ks)  == [x \in (DOMAIN d) \cap ks |-> d[x]]
Same(a, b)   == DOMAIN a = DOMAIN b /\ \A k \in DOMAIN a : a[k] = b[k]
Empty        == [x \in {} |-> 0]
SeqSet(s)    == {s[i] : i \in DOMAIN s}

RECURSIVE PutAll(_, _, _)                \* kv = sequence of <<key, value>>, left to right
PutAll(d, kv, i) == IF i > Len(kv) THEN d ELSE PutAll(Put(d, kv[i][1], kv[i][2]), kv, i + 1)
RECURSIVE DelAll(_, _, _)
DelAll(d, ks, i) == IF i > Len(ks) THEN d ELSE DelAll(Del(d, ks[i]), ks, i + 1)

(* ---- results ---- *)
Ok(d)  == [st |-> "ok",  d |-> d]        \* mapping result: replaces the data
Rej(d) == [st |-> "rej", d |-> d]        \* false result: ends the pipeline
Err(d) == [st |-> "err", d |-> d]        \* the dictionary operation raised (missing key)

(* ---- DataEdit operations = dictionary operations ---- *)
(* modify functions: "inc" value+1 (numbers only), "del" -> DELETE, "rej" -> REJECT,                  *)
(*                   "rejpos" -> REJECT iff the current value is truthy else unchanged   *)
ApplyOp(op, d, ctl) ==
    CASE op.k = "add"        -> Ok(PutAll(d, op.kv, 1))
      [] op.k = "setdefault" -> Ok(PutAll(d, SelectSeq(op.kv, LAMBDA p : p[1] \notin DOMAIN d), 1))
      [] op.k = "copy"       -> IF op.src \in DOMAIN d THEN Ok(Put(d, op.dst, d[op.src])) ELSE Err(d)
      [] op.k = "rename"     -> IF op.src \in DOMAIN d
                                THEN Ok(Del(Put(d, op.dst, d[op.src]), op.src)) ELSE Err(d)
      [] op.k = "delete"     -> Ok(DelAll(d, op.keys, 1))
      [] op.k = "permit"     -> Ok(Keep(d, SeqSet(op.keys)))
      [] op.k = "modify"     ->
            IF op.key \notin DOMAIN d THEN Err(d)
            ELSE (CASE op.f = "inc"    -> Ok(Put(d, op.key, IF IsNum(d[op.key]) THEN d[op.key] + 1 ELSE d[op.key]))
                    [] op.f = "del"    -> Ok(Del(d, op.key))
                    [] op.f = "rej"    -> Rej(d)
                    [] op.f = "rejpos" -> IF Truthy(d[op.key]) THEN Rej(d) ELSE Ok(d))
      [] op.k = "add_output" -> Ok(Put(d, op.key, ctl[op.blk].out))

RECURSIVE Chain(_, _, _, _)              \* DataEdit chain: operations applied left to right
Chain(ops, d, ctl, i) ==
    IF i > Len(ops) THEN Ok(d)
    ELSE LET r == ApplyOp(ops[i], d, ctl)
         IN  IF r.st = "ok" THEN Chain(ops, r.d, ctl, i + 1) ELSE r

(* ---- bundled predicates ---- *)
(* Edge as documented: rise = falsy -> truthy, fall = truthy -> falsy, u_rise = UNDEF -> *)
(* truthy (defaults to rise when not given: urise = -1), u_fall = UNDEF -> falsy         *)
EdgeURise(f) == IF f.urise = 0 - 1 THEN f.rise ELSE f.urise = 1
EdgePass(f, prev, val) ==
    IF prev = UNDEF THEN (IF Truthy(val) THEN EdgeURise(f) ELSE f.ufall)
    ELSE \/ (~Truthy(prev) /\ Truthy(val) /\ f.rise)
         \/ (Truthy(prev) /\ ~Truthy(val) /\ f.fall)
NotFromUndef(d) == "previous" \in DOMAIN d /\ d["previous"] # UNDEF
DeltaPass(last, delta, v) == last = UNDEF \/ Abs(last - v) >= delta

(* ---- one filter ---- *)
(* mem = function filter position -> last passed value (Delta); ctl = control blocks     *)
(* [out |-> value, init |-> BOOLEAN].  Returns [st, d, mem].                             *)
ApplyFilter(f, i, d, mem, ctl) ==
    LET R(r) == [st |-> r.st, d |-> r.d, mem |-> mem] IN
    CASE f.k = "const"     -> IF f.r \in {"true", "truthy", "one", "tuple1"} THEN R(Ok(d)) ELSE R(Rej(d))
      [] f.k = "edit"      -> R(Chain(f.ops, d, ctl, 1))
      [] f.k = "edge"      -> IF {"value", "previous"} \subseteq DOMAIN d
                              THEN R(IF EdgePass(f, d["previous"], d["value"]) THEN Ok(d) ELSE Rej(d))
                              ELSE R(Err(d))
      [] f.k = "nfu"       -> R(IF NotFromUndef(d) THEN Ok(d) ELSE Rej(d))
      [] f.k = "delta"     -> IF "value" \notin DOMAIN d THEN R(Err(d))
                              ELSE IF DeltaPass(mem[i], f.d, d["value"])
                                   THEN [st |-> "ok", d |-> d, mem |-> [mem EXCEPT ![i] = d["value"]]]
                                   ELSE R(Rej(d))
      [] f.k = "ifoutput"  -> R(IF Truthy(ctl[f.blk].out) THEN Ok(d) ELSE Rej(d))
      [] f.k = "ifnotinit" -> R(IF ctl[f.blk].init THEN Rej(d) ELSE Ok(d))

RECURSIVE Pipe(_, _, _, _, _)            \* the pipeline of one Event: filters in the given order
Pipe(fs, d, mem, ctl, i) ==
    IF i > Len(fs) THEN [st |-> "ok", d |-> d, mem |-> mem]
    ELSE LET r == ApplyFilter(fs[i], i, d, mem, ctl)
         IN  IF r.st = "ok" THEN Pipe(fs, r.d, r.mem, ctl, i + 1) ELSE r
=============================================================================
