---------------------------- MODULE MC_Counter ----------------------------
(* Exhaustive state graph of Counter for the modulo values of property C20              *)
(* {None, 1, 2, 7, 10, 2.5 (= 5 at scale 2)} and a small set of amounts / initdefs.     *)
(* `last` records the transition taken; with the Export constraint every transition of  *)
(* the graph becomes one implementation test (state x event x amount -> state', ret).   *)
EXTENDS Integers, TLC, Json
NoMod == 0 - 1
Mods == {NoMod, 1, 2, 5, 7, 10}
Amounts == {0 - 3, 0 - 1, 0, 1, 2, 11}
Inits == {0 - 3, 0, 4, 12}
Window == 24
VARIABLES val, mod, initv, ret, last
C == INSTANCE Counter
vars == <<val, mod, initv, ret, last>>
NoLast == [ev |-> "init", a |-> 0, pre |-> 0]
Init == /\ \E m \in Mods, i \in Inits, hr \in BOOLEAN, r \in Inits : C!InitFrom(m, i, r, hr)
        /\ last = NoLast
DoInc == \E a \in Amounts : C!Inc(a) /\ last' = [ev |-> "inc", a |-> a, pre |-> val]
DoDec == \E a \in Amounts : C!Dec(a) /\ last' = [ev |-> "dec", a |-> a, pre |-> val]
DoPut == \E a \in Amounts : C!Put(a) /\ last' = [ev |-> "put", a |-> a, pre |-> val]
DoReset == C!Reset /\ last' = [ev |-> "reset", a |-> 0, pre |-> val]
DoPutMissing == C!PutMissing /\ last' = [ev |-> "putmissing", a |-> 0, pre |-> val]
Next == DoInc \/ DoDec \/ DoPut \/ DoReset \/ DoPutMissing
Spec == Init /\ [][Next]_vars
Bounded == val >= 0 - Window /\ val <= Window
InRange == C!InRange
ReturnIsOutput == C!ReturnIsOutput
ConfFrozen == [][UNCHANGED <<mod, initv>>]_vars
PutMissingHarmless == [][(last'.ev = "putmissing") => (val' = val /\ ~ret'.ok)]_vars
(* behaviour export: one line per transition *)
Export == \/ last.ev = "init"
          \/ PrintT(<<"EXPORT", ToJson([mod |-> mod, initv |-> initv, ev |-> last.ev, a |-> last.a,
                                          pre |-> last.pre, post |-> val, ok |-> ret.ok])>>)
ExportC == Bounded /\ Export
=============================================================================
