----------------------------- MODULE MC_Guard -----------------------------
(* Exhaustive over all event graphs with NN nodes (every kind assignment, every subset   *)
(* of the NN*NN possible edges incl. self-loops, edge labels from Labels), all value     *)
(* vectors and all external events.                                                      *)
EXTENDS Integers, Sequences, FiniteSets, TLC
CONSTANTS ResetOnError, ZeroTimerGuarded, NN, Mode, KindSet
VARIABLES g, vals, res
G == INSTANCE Guard
Nodes == 1..NN
Kinds == CASE KindSet = "z" -> {"fwd", "tgl", "ztg"}
          [] KindSet = "classic" -> {"fwd", "chg", "tgl"}
          [] OTHER -> {"fwd", "chg", "tgl", "ztg"}
Plain == [trig |-> "out", filter |-> "pass", cond |-> "none"]
Labels == IF Mode = "plain" THEN {Plain}
          ELSE {Plain, [trig |-> "every", filter |-> "pass", cond |-> "none"],
                [trig |-> "out", filter |-> "reject", cond |-> "none"],
                [trig |-> "out", filter |-> "pass", cond |-> "tnone"]}
(* edges of node b: for each target (in order 1..NN) either no edge or one labelled edge *)
NoEdge == [trig |-> "no", filter |-> "pass", cond |-> "none"]
EdgeChoice == [Nodes -> {NoEdge} \cup Labels]
RECURSIVE Build(_, _)
Build(ch, t) == IF t > NN THEN <<>>
                ELSE (IF ch[t].trig = "no" THEN <<>> ELSE <<[to |-> t, trig |-> ch[t].trig,
                        filter |-> ch[t].filter, cond |-> ch[t].cond]>>) \o Build(ch, t + 1)
Init == /\ \E k \in [Nodes -> Kinds], ec \in [Nodes -> EdgeChoice] :
             g = [kind |-> k, edges |-> [b \in Nodes |-> Build(ec[b], 1)]]
        /\ vals \in [Nodes -> {0, 1}]
        /\ res = G!Start(vals)
Ext == \E b \in Nodes, v \in {0, 1} :
          /\ ~res.err
          /\ res' = G!External(g, b, v, vals)
          /\ vals' = res'.vals /\ UNCHANGED g
Spec == Init /\ [][Ext]_<<g, vals, res>>
Released == G!Released(res)
Depth1 == G!Depth1(res)
RecursionIsFatal == G!RecursionIsFatal(res)
=============================================================================
