----------------------------- MODULE OutEvents -----------------------------
(* Output events (edzed/block.py: SBlock.set_output, CBlock.eval_block), property C02.   *)
(* A value is an id (an object identity); Cls[id] is its equality class, so 1 / True /   *)
(* 1.0 are three ids of one class.  UNDEF is Filters!UNDEF.  An event configuration is   *)
(* [dest, etype, filters]; the filters are those of module Filters.                      *)
EXTENDS Integers, Sequences

CONSTANTS SRC, TRIG          \* codes of the 'source' and 'trigger' data items

VARIABLES cur,               \* the sender's stored output object (id)
          log                \* deliveries of the last assignment, in order (trace/monitor)

F == INSTANCE Filters
UNDEF == F!UNDEF

(* Python ==; class 0 = a value that is not equal to anything, itself included (NaN) *)
Equal(cls, a, b) == a # UNDEF /\ b # UNDEF /\ cls[a] = cls[b] /\ cls[a] # 0

Data(prev, val) == [previous |-> prev, value |-> val, source |-> SRC, trigger |-> TRIG]

(* deliveries produced by one trigger for a list of configured events: each event once,  *)
(* in configured order; the destination receives the data that left the filters          *)
RECURSIVE DelivOf(_, _, _, _)
DelivOf(evs, prev, val, i) ==
    IF i > Len(evs) THEN <<>>
    ELSE LET r == F!Pipe(evs[i].filters, Data(prev, val),
                         [j \in 1..Len(evs[i].filters) |-> UNDEF], <<>>, 1)
             rest == DelivOf(evs, prev, val, i + 1)
         IN  IF r.st = "ok"
             THEN <<[dest |-> evs[i].dest, etype |-> evs[i].etype, data |-> r.d]>> \o rest
             ELSE rest

(* sequential sender: set_output(v) *)
AssignS(cls, onOut, onEvery, v) ==
    IF Equal(cls, cur, v)
    THEN /\ cur' = cur                                   \* unchanged: the OLD object stays
         /\ log' = DelivOf(onEvery, cur, v, 1)
    ELSE /\ cur' = v
         /\ log' = DelivOf(onOut, cur, v, 1) \o DelivOf(onEvery, cur, v, 1)

(* combinational sender: eval_block() computed v *)
AssignC(cls, onOut, v) ==
    IF Equal(cls, cur, v)
    THEN cur' = cur /\ log' = <<>>
    ELSE cur' = v /\ log' = DelivOf(onOut, cur, v, 1)
=============================================================================
