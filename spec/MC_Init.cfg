SPECIFICATION Spec
CONSTANTS N = 2
 Edges = TRUE
 EarlyInit = TRUE
INVARIANT OrderIndependent
INVARIANT AtMostOnce
INVARIANT SourceOrder
INVARIANT StepsBeforeEvent
INVARIANT AsyncOnlyIfNeeded
INVARIANT AllStepsDone
INVARIANT EarlyEventHarmless
CHECK_DEADLOCK FALSE
