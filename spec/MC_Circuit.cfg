SPECIFICATION Spec
CONSTANTS SecondPass = TRUE
INVARIANT Biconditional
INVARIANT MatchesDeclaration
INVARIANT InverterUnique
PROPERTY ScriptFrozen
CHECK_DEADLOCK FALSE
