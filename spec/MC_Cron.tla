------------------------------ MODULE MC_Cron ------------------------------
EXTENDS Integers, FiniteSets, Sequences, TLC
CONSTANTS ReloadRecalcs, ResetSurvivesEmpty, WithY
Day == 24
Hour == 6
YB == 16
YE == 20
L == 2
Eps == 2
MaxLt == 60
VARIABLES lt, off, pc, wakeup, due, since, qn, xal, outy, reconfs, jumps, lastJump
C == INSTANCE Cron
Spec == C!CInit /\ [][C!CNext]_C!cvars
OutputCorrect == C!OutputCorrect
JumpNeverKills == C!JumpNeverKills
=============================================================================
