SPECIFICATION Spec
CONSTANTS ResetOnError = TRUE
 NN = 3
 Mode = "plain"
INVARIANT Released
INVARIANT Depth1
INVARIANT RecursionIsFatal
CHECK_DEADLOCK FALSE
