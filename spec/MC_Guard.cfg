SPECIFICATION Spec
CONSTANTS ResetOnError = TRUE
 ZeroTimerGuarded = TRUE
 KindSet = "all"
 NN = 3
 Mode = "plain"
INVARIANT Released
INVARIANT Depth1
INVARIANT RecursionIsFatal
CHECK_DEADLOCK FALSE
