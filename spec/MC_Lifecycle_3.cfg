SPECIFICATION Spec
CONSTANTS N = 3
 InitTasksCancelledOnExit = TRUE
INVARIANT StoppedExactlyOnce
INVARIANT AsyncFirst
INVARIANT NothingLeft
INVARIANT ReadyOnlyWhileRunning
PROPERTY FirstWins
PROPERTY NeverReadyAgain
CHECK_DEADLOCK FALSE
