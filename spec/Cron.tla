-------------------------------- MODULE Cron --------------------------------
(* The cron service behind TimeDate / TimeSpan (edzed/blocklib/cron.py: _maintask,       *)
(* reload; edzed/blocklib/timedate.py: reconfig / recalc), property C07, on a toy day:   *)
(* Day ticks per day, a wake-up every Hour ticks (the hourly alarms), block y active in  *)
(* [YB, YE) every day, block x with one alarm that a 'reconfig' event moves (which makes *)
(* the service reload its timetable).  lt = loop time, wall = lt + off (off changes with *)
(* clock jumps).  The task runs at most L ticks after it became runnable (busy loop).    *)
(*                                                                                       *)
(* ReloadRecalcs = TRUE : after a reload every block is recalculated with the very clock *)
(*   reading used to pick the next alarm.  FALSE = deviation: only the next alarm is      *)
(*   recomputed, so an alarm that fell between the reconfigured block's own clock reading *)
(*   and the (late) reload is skipped (DESIGN.md section 7-5).                            *)
(* ResetSurvivesEmpty = FALSE : deviation "the reset path fails when no block is          *)
(*   registered" (section 7-3): the main task dies on a clock jump.                       *)
EXTENDS Integers, FiniteSets, Sequences, TLC
CONSTANTS Day, Hour, YB, YE, L, Eps, ReloadRecalcs, ResetSurvivesEmpty, WithY, MaxLt
VARIABLES lt, off, pc, wakeup, due, since, qn, xal, outy, reconfs, jumps, lastJump
cvars == <<lt, off, pc, wakeup, due, since, qn, xal, outy, reconfs, jumps, lastJump>>
Wall == lt + off
Tod(t) == t % Day
Hours == {h \in 0..(Day - 1) : h % Hour = 0}
Table == Hours \cup (IF WithY THEN {YB, YE} ELSE {}) \cup (IF xal >= 0 THEN {xal} ELSE {})
Registered == WithY \/ xal >= 0                       \* some block has an alarm
PredY(t) == WithY /\ Tod(t) >= YB /\ Tod(t) < YE
NextEntry(tod) == IF \E e \in Table : e >= tod
                  THEN CHOOSE e \in Table : e >= tod /\ \A f \in Table : f >= tod => e <= f
                  ELSE CHOOSE e \in Table : \A f \in Table : e <= f
After(e) == IF \E f \in Table : f > e
            THEN CHOOSE f \in Table : f > e /\ \A g \in Table : g > e => f <= g
            ELSE CHOOSE f \in Table : \A g \in Table : f <= g
(* loop time at which time of day tod comes next, seen from wall time w at loop time t *)
DueFor(tod, w, t) == t + (IF tod >= Tod(w) THEN tod - Tod(w) ELSE tod - Tod(w) + Day)
CInit == /\ lt = 0 /\ off = 0 /\ pc = "sleep" /\ xal \in {1, 0 - 1}
         /\ wakeup = NextEntry(0) /\ due = DueFor(NextEntry(0), 0, 0) /\ since = 0 - 1
         /\ qn = FALSE /\ outy = PredY(0) /\ reconfs = 0 /\ jumps = 0 /\ lastJump = 0 - 1000
(* a 'reconfig' event: the alarm of x moves, reload() wakes the task *)
Reconfig == /\ pc # "dead" /\ reconfs < 1 /\ \E a \in {3, 7} : a # xal /\ xal' = a
            /\ qn' = TRUE /\ reconfs' = reconfs + 1
            /\ IF pc = "sleep" THEN pc' = "runnable" /\ since' = lt ELSE UNCHANGED <<pc, since>>
            /\ UNCHANGED <<lt, off, wakeup, due, outy, jumps, lastJump>>
Timeout == /\ pc = "sleep" /\ lt >= due /\ pc' = "runnable" /\ since' = lt
           /\ UNCHANGED <<lt, off, wakeup, due, qn, xal, outy, reconfs, jumps, lastJump>>
(* the system clock is stepped forward *)
Jump == /\ pc # "dead" /\ jumps < 1 /\ \E j \in {Hour + 1, 2 * Hour + 3} : off' = off + j
        /\ jumps' = jumps + 1 /\ lastJump' = lt
        /\ UNCHANGED <<lt, pc, wakeup, due, since, qn, xal, outy, reconfs>>
Expected == DueFor(wakeup, Wall, lt) = lt            \* woke up at the time it was sleeping for
Run == /\ pc = "runnable"
       /\ IF qn
          THEN /\ qn' = FALSE                                     \* reload
               /\ outy' = IF ReloadRecalcs THEN PredY(Wall) ELSE outy
               /\ wakeup' = NextEntry(Tod(Wall)) /\ due' = DueFor(NextEntry(Tod(Wall)), Wall, lt)
               /\ pc' = "sleep"
          ELSE IF Tod(Wall) # wakeup /\ ~(Tod(Wall) - wakeup \in 0..L)
          THEN \* the clock is way off: reset = recalculate every registered block
               IF ~Registered /\ ~ResetSurvivesEmpty
               THEN pc' = "dead" /\ UNCHANGED <<qn, outy, wakeup, due>>
               ELSE /\ outy' = PredY(Wall) /\ UNCHANGED qn
                    /\ wakeup' = NextEntry(Tod(Wall)) /\ due' = DueFor(NextEntry(Tod(Wall)), Wall, lt)
                    /\ pc' = "sleep"
          ELSE /\ outy' = IF wakeup \in {YB, YE} /\ WithY THEN PredY(Wall) ELSE outy
               /\ wakeup' = After(wakeup) /\ due' = DueFor(After(wakeup), Wall, lt)
               /\ UNCHANGED qn /\ pc' = "sleep"
       /\ since' = 0 - 1 /\ UNCHANGED <<lt, off, xal, reconfs, jumps, lastJump>>
Tick == /\ lt < MaxLt
        /\ (pc = "runnable" => lt - since < L)
        /\ (pc = "sleep" => lt < due)
        /\ lt' = lt + 1 /\ UNCHANGED <<off, pc, wakeup, due, since, qn, xal, outy, reconfs, jumps, lastJump>>
CNext == Reconfig \/ Timeout \/ Jump \/ Run \/ Tick
Far(t) == \A b \in {YB, YE} : LET d == Tod(t) - b IN (d > Eps \/ d < 0 - Eps)
(* away from its boundaries the output of y follows the wall clock (after a jump: at    *)
(* the latest one hour later)                                                            *)
OutputCorrect == (pc = "sleep" /\ WithY /\ Far(Wall) /\ lt - lastJump > Hour + L) => outy = PredY(Wall)
JumpNeverKills == pc # "dead"
=============================================================================
