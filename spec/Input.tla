------------------------------- MODULE Input -------------------------------
(* edzed.Input and the value part of edzed.InputExp (blocklib/sblocks2.py), property C17. *)
(* Values are abstract ids 1..K, UNDEF = 0.  The three validators are tables over the     *)
(* value domain: allowed (membership), check (truth value of the user function) and       *)
(* schema (the converted value, Raises = 0 when the user function raises).                *)
EXTENDS Integers

CONSTANTS K                 \* size of the value domain
Dom    == 1..K
UNDEF  == 0
Raises == 0

VARIABLES cfg,   \* configuration record (never changes):
                 \*   kind "input"|"exp", hasA, allowed, hasC, check, hasS, schema,
                 \*   initdef (0 = none), rest (restored persistent value, 0 = none), expired
          phase, \* "new" | "refused" | "running"
          out,   \* the block's output
          ret    \* return value of the last put event

vars == <<cfg, phase, out, ret>>

Accept(c, v) == /\ (~c.hasA \/ c.allowed[v])
                /\ (~c.hasC \/ c.check[v])
                /\ (~c.hasS \/ c.schema[v] # Raises)
(* Python values that are equal although of different type (10 and 10.0, 0 and False) have  *)
(* ids of their own - check and schema tell them apart - but as an OUTPUT they are one and   *)
(* the same value (an assignment of an equal value changes nothing): c.canon[id] = the id     *)
(* of the class representative                                                                *)
Image(c, v)  == c.canon[IF c.hasS THEN c.schema[v] ELSE v]

(* the constructor validates initdef (and InputExp's expired value) *)
ConstructOk(c) == /\ (c.initdef # 0 => Accept(c, c.initdef))
                  /\ (c.kind = "exp" => Accept(c, c.expired))

(* output after start-up: restored value if it passes validation (Input only; InputExp  *)
(* restores through the FSM path, not claimed), else initdef, else - for InputExp - the  *)
(* expired value; an Input without any source stays UNDEF (and the start fails).         *)
InitialOut(c) ==
    IF c.kind = "input"
    THEN IF c.rest # 0 /\ Accept(c, c.rest) THEN Image(c, c.rest)
         ELSE IF c.initdef # 0 THEN Image(c, c.initdef) ELSE UNDEF
    ELSE IF c.initdef # 0 THEN Image(c, c.initdef) ELSE Image(c, c.expired)

Construct == /\ phase = "new"
             /\ phase' = IF ConstructOk(cfg) THEN "running" ELSE "refused"
             /\ out' = IF ConstructOk(cfg) THEN InitialOut(cfg) ELSE UNDEF
             /\ UNCHANGED <<cfg, ret>>

(* 'put' event; for InputExp `expiring` means a zero 'duration' item: the value is       *)
(* accepted and expires at once, so the output is the (converted) expired value.         *)
Put(v, expiring) ==
    /\ phase = "running"
    /\ IF Accept(cfg, v)
       THEN /\ out' = IF expiring THEN Image(cfg, cfg.expired) ELSE Image(cfg, v)
            /\ ret' = TRUE
       ELSE /\ out' = out
            /\ ret' = FALSE
    /\ UNCHANGED <<cfg, phase>>

(* ---- properties ---- *)
(* the output is always the image of some accepted value (or still UNDEF) *)
OutputAlwaysAccepted == out = UNDEF \/ \E v \in Dom : Accept(cfg, v) /\ Image(cfg, v) = out
RefusedHasNoOutput   == phase = "refused" => out = UNDEF
RejectedChangesNothing == [][(phase = "running" /\ ret' = FALSE) => out' = out]_vars
=============================================================================
