SPECIFICATION Spec
CONSTANTS MaxNow = 7
 MaxLevel = 13
 MinStop = 0
INVARIANT CountBound
INVARIANT OutputIsLastRepeat
INVARIANT Pace
INVARIANT ProbeSeesLatest
PROPERTY RestartOnNew
PROPERTY SilentAfterStop
CONSTRAINT Bound
VIEW View
CHECK_DEADLOCK FALSE
