----------------------------- MODULE MC_Input -----------------------------
(* Exhaustive: every validator table over a 3-value domain, every initdef / restored /   *)
(* expired value, all put sequences (the block is state-determined, so full reachability *)
(* covers sequences of any length).                                                      *)
EXTENDS Integers, TLC
K == 3
VARIABLES cfg, phase, out, ret
I == INSTANCE Input
AllTrue == [v \in I!Dom |-> TRUE]
Ident   == [v \in I!Dom |-> v]
Tables(hasFlag, space, dflt) == {<<FALSE, dflt>>} \cup {<<TRUE, t>> : t \in space}
Init == /\ \E a \in Tables("hasA", [I!Dom -> BOOLEAN], AllTrue),
              c \in Tables("hasC", [I!Dom -> BOOLEAN], AllTrue),
              s \in Tables("hasS", [I!Dom -> 0..K], Ident),
              k \in {"input", "exp"}, i \in 0..K, r \in 0..K, e \in I!Dom :
             /\ (k = "input" => e = 1)
             /\ (k = "exp" => r = 0)
             /\ cfg = [kind |-> k, hasA |-> a[1], allowed |-> a[2], hasC |-> c[1], check |-> c[2],
                       hasS |-> s[1], schema |-> s[2], initdef |-> i, rest |-> r, expired |-> e, canon |-> Ident]
        /\ phase = "new" /\ out = 0 /\ ret = FALSE
DoPut == \E v \in I!Dom, x \in BOOLEAN : (x => cfg.kind = "exp") /\ I!Put(v, x)
Next == I!Construct \/ DoPut
Spec == Init /\ [][Next]_<<cfg, phase, out, ret>>
OutputAlwaysAccepted == I!OutputAlwaysAccepted
RefusedHasNoOutput == I!RefusedHasNoOutput
RejectedChangesNothing == I!RejectedChangesNothing
CfgFrozen == [][cfg' = cfg]_<<cfg, phase, out, ret>>
=============================================================================
