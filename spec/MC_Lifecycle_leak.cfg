SPECIFICATION Spec
CONSTANTS N = 2
 InitTasksCancelledOnExit = FALSE
INVARIANT StoppedExactlyOnce
INVARIANT AsyncFirst
INVARIANT NothingLeft
INVARIANT ReadyOnlyWhileRunning
PROPERTY FirstWins
PROPERTY NeverReadyAgain
CHECK_DEADLOCK FALSE
