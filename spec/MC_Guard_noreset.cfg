SPECIFICATION Spec
CONSTANTS ResetOnError = FALSE
 ZeroTimerGuarded = TRUE
 KindSet = "all"
 NN = 2
 Mode = "plain"
INVARIANT Released
INVARIANT Depth1
INVARIANT RecursionIsFatal
CHECK_DEADLOCK FALSE
