SPECIFICATION Spec
CONSTANTS ReloadRecalcs = FALSE
 ResetSurvivesEmpty = TRUE
 WithY = TRUE
INVARIANT OutputCorrect
INVARIANT JumpNeverKills
CHECK_DEADLOCK FALSE
