------------------------------ MODULE CBlocks ------------------------------
(* Documented functions of the library combinational blocks (blocklib/cblocks.py):       *)
(* Not, And, Or, Xor, Compare (hysteresis), Override, FuncBlock (unpack on / off, named   *)
(* inputs and groups).  Values are integers (booleans are 0/1), UNDEF is distinguished.  *)
(* A block is a record [k, ins, p1, p2]; ins is a sequence of references                 *)
(* [c |-> TRUE, x |-> constant value] or [c |-> FALSE, x |-> block index].               *)
EXTENDS Integers, Sequences

UNDEF == 0 - 1000
(* equal-but-not-identical values: the code FLOAT + k stands for the float k.0, which     *)
(* compares equal to the integer k but is a different object (f"{v}", type(v) see it)     *)
FLOAT == 500
IsFloat(v) == v >= FLOAT /\ v < 2 * FLOAT
Base(v) == IF IsFloat(v) THEN v - FLOAT ELSE v
Eq(a, b) == a = b \/ (a # UNDEF /\ b # UNDEF /\ Base(a) = Base(b))      \* Python ==
Truthy(v) == v # UNDEF /\ Base(v) # 0    \* bool(UNDEF) is False
Bv(b) == IF b THEN 1 ELSE 0

In(blk, o, i) == IF blk.ins[i].c THEN blk.ins[i].x ELSE o[blk.ins[i].x]

RECURSIVE WSum(_, _, _, _)       \* sum of w(i) * input i, i = from..Len
WSum(blk, o, i, acc) == IF i > Len(blk.ins) THEN acc
                        ELSE WSum(blk, o, i + 1, acc + (IF i <= 3 THEN i ELSE 1) * In(blk, o, i))

CountTrue(blk, o) == LET n == Len(blk.ins) IN
    LET RECURSIVE C(_) C(i) == IF i > n THEN 0 ELSE Bv(Truthy(In(blk, o, i))) + C(i + 1) IN C(1)

(* F(blk, o, cur): output of the block for the block outputs o; cur = its own present    *)
(* output (needed by the comparator's hysteresis)                                        *)
F(blk, o, cur) ==
    CASE blk.k = "not"  -> Bv(~Truthy(In(blk, o, 1)))
      [] blk.k = "and"  -> Bv(\A i \in 1..Len(blk.ins) : Truthy(In(blk, o, i)))
      [] blk.k = "or"   -> Bv(\E i \in 1..Len(blk.ins) : Truthy(In(blk, o, i)))
      [] blk.k = "xor"  -> CountTrue(blk, o) % 2
      [] blk.k = "id"   -> In(blk, o, 1)
      [] blk.k = "compare" ->        \* p1 = low, p2 = high; UNDEF start: threshold in the middle
            IF cur = UNDEF THEN Bv(2 * In(blk, o, 1) >= blk.p1 + blk.p2)
            ELSE IF Truthy(cur) THEN Bv(In(blk, o, 1) >= blk.p1)
            ELSE Bv(In(blk, o, 1) >= blk.p2)
      [] blk.k = "override" ->       \* ins = <<input, override>>, p1 = null value
            IF In(blk, o, 2) = blk.p1 THEN In(blk, o, 1) ELSE In(blk, o, 2)
      [] blk.k \in {"wsum", "wsum_np", "wsum_named"} -> WSum(blk, o, 1, 0)
      [] blk.k = "mixf" ->           \* ins = <<x, sel>>: float(x) if sel else int(x)
            IF Truthy(In(blk, o, 2)) THEN FLOAT + Base(In(blk, o, 1)) ELSE Base(In(blk, o, 1))
      [] blk.k = "typ"  -> Bv(IsFloat(In(blk, o, 1)))      \* a function that tells 5 from 5.0
=============================================================================
