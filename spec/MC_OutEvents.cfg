SPECIFICATION Spec
INVARIANT Chained
INVARIANT EveryAssignmentSeen
INVARIANT Order
INVARIANT NfuOnlyFirst
CHECK_DEADLOCK FALSE
