SPECIFICATION Spec
CONSTANTS CancelOnExit = TRUE
 FiredTimerCleared = TRUE
 RestoreTimerFirst = TRUE
 StartMode = "restore"
 MaxNow = 2
 MaxLevel = 4
 MinStop = 0
 Tables = "some"
INVARIANT AtMostOnePending
INVARIANT Refines
INVARIANT ReportedIsPending
INVARIANT NothingAfterStop
INVARIANT OnTime
INVARIANT StateValid
INVARIANT NoStaleFire
CONSTRAINT Bound
VIEW View
CHECK_DEADLOCK FALSE
