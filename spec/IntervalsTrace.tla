--------------------------- MODULE IntervalsTrace ---------------------------
(* Reference evaluation for intervals (C13).  Each line is one case recorded from the    *)
(* real TimeInterval / DateInterval / DateTimeInterval: an abstract interval rendered by *)
(* the harness into one of the documented notations, what as_list() returned, what       *)
(* came back after feeding as_list() and as_string() in again, and `moment in interval`  *)
(* for probe moments; or a documented-malformed input and whether it raised.             *)
EXTENDS TraceLib
VARIABLES ok, tid, l
I == INSTANCE Intervals
vars == <<ok>>
Ev(t) == Traces[t].ev
TraceInit == tid \in 1..NTraces /\ l = 1 /\ ok = TRUE
Case(e) == /\ ~e.err
           /\ e.as_list = I!Normal(e.abs)                 \* every notation: the same normal form
           /\ e.re_list = e.as_list                       \* feeding the numeric form back
           /\ e.re_str = e.as_list                        \* feeding the string rendering back
           /\ \A i \in DOMAIN e.probes :                  \* documented membership rules
                 e.probes[i].isin = I!Member(e.kind, e.probes[i].p, e.abs)
Step == /\ l <= Len(Ev(tid))
        /\ LET e == Ev(tid)[l] IN
             \/ e.ev = "ival" /\ Case(e)
             \/ e.ev = "bad" /\ e.err                     \* malformed input is rejected
        /\ l' = l + 1 /\ UNCHANGED <<tid, ok>>
TraceSpec == TraceInit /\ [][Step]_<<vars, tid, l>>
ASSUME InitRegs
Book == Reach(tid, l, vars)
LenOf(t) == Len(Ev(t))
Accepted == AcceptedAll(LenOf)
=============================================================================
