"""Shared builder / executor for the simulator properties C01 and C10 (SimTrace.tla)."""
from __future__ import annotations

from . import rt

UNDEF = -1000


def code(x):
    import edzed
    if x is edzed.UNDEF:
        return UNDEF
    if isinstance(x, bool):
        return int(x)
    if isinstance(x, float) and x == int(x) and 0 <= x < 400:
        return 500 + int(x)         # the float k.0: equal to the integer k, but another object
    if isinstance(x, int) and abs(x) < 10 ** 6:
        return x
    return -999999


def wfunc(vals):
    return sum((i + 1 if i < 3 else 1) * v for i, v in enumerate(vals))


def expand(stim):
    """
    stim['blocks']: list of {'name', 's', 'k', 'ins': [ref], 'p1', 'p2', 'fb': [block index],
    'init': value (S blocks), 'src': 'input'|'counter'}; ref = {'t': blk|name|inv|const|plain, 'x'}.
    Returns the header blocks (with automatic inverters appended and refs resolved).
    """
    blocks = [dict(b) for b in stim['blocks']]
    hdr = []
    inv = {}
    for b in blocks:
        ins = []
        for r in b.get('ins', []):
            if r['t'] in ('const', 'plain'):
                ins.append({'c': True, 'x': r['x']})
            elif r['t'] == 'inv':
                if r['x'] not in inv:
                    inv[r['x']] = len(blocks) + len(inv) + 1
                ins.append({'c': False, 'x': inv[r['x']]})
            else:
                ins.append({'c': False, 'x': r['x']})
        hdr.append({'s': bool(b['s']), 'k': b['k'], 'ins': ins, 'p1': b.get('p1', 0),
                    'p2': b.get('p2', 0), 'fb': list(b.get('fb', []))})
    names = [b['name'] for b in blocks]
    for x, idx in sorted(inv.items(), key=lambda kv: kv[1]):
        hdr.append({'s': False, 'k': 'not', 'ins': [{'c': False, 'x': x}], 'p1': 0, 'p2': 0, 'fb': []})
        names.append('_not_' + blocks[x - 1]['name'])
    return hdr, names


def analyse(hdr):
    """(acyclic, total number of paths from any sequential block / constant-free source to C blocks)"""
    n = len(hdr)
    ins = {i + 1: [r['x'] for r in b['ins'] if not r['c']] for i, b in enumerate(hdr)}
    # feedback edges make the event graph cyclic as well
    fbs = {i + 1: b['fb'] for i, b in enumerate(hdr)}
    color = {}
    cyc = False

    def dfs(u):
        nonlocal cyc
        color[u] = 1
        for w in ins[u]:
            if color.get(w) == 1:
                cyc = True
            elif w not in color:
                dfs(w)
        color[u] = 2
    for u in ins:
        if u not in color:
            dfs(u)
    if cyc or any(fbs[u] for u in fbs):
        return False, None
    memo = {}

    def paths(c):
        # worst-case number of evaluations of c in one burst under ANY evaluation order:
        # once for being pending + once per change of a combinational input
        if c not in memo:
            memo[c] = 1 + sum(paths(w) for w in ins[c] if not hdr[w - 1]['s'])
        return memo[c]
    total = sum(paths(c) for c in ins if not hdr[c - 1]['s'])
    return True, total


def execute(stim):
    import edzed
    hdr, names = expand(stim)
    index = {nm: i + 1 for i, nm in enumerate(names)}
    log = []
    orig_eval = edzed.CBlock.eval_block

    def wrapped(self):
        changed = orig_eval(self)
        log.append({'ev': 'eval', 'c': index.get(self.name, -1), 'v': code(self.output),
                    'changed': bool(changed)})
        return changed

    blks = {}

    def ref(r):
        t, x = r['t'], r['x']
        if t == 'blk':
            return blks[x]
        if t == 'name':
            return stim['blocks'][x - 1]['name']
        if t == 'inv':
            return '_not_' + stim['blocks'][x - 1]['name']
        if t == 'const':
            return edzed.Const(x)
        return x

    def build(circuit):
        order = stim.get('order') or list(range(1, len(stim['blocks']) + 1))
        # sequential blocks first (objects may be referenced), then C blocks in the given order
        for i in order:
            b = stim['blocks'][i - 1]
            if not b['s']:
                continue
            kw = {}
            if b.get('fwd'):
                # this sequential block forwards every new value to another sequential block
                kw['on_output'] = edzed.Event(stim['blocks'][b['fwd'] - 1]['name'], 'put',
                                              efilter=edzed.not_from_undef)
            if b.get('bad'):
                # an output event that fails in a non-fatal way (unknown event type): the error
                # is reported to the sender of the external event, the simulation continues
                kw['on_output'] = edzed.Event(stim['blocks'][b['bad'] - 1]['name'], 'nosuchevent',
                                               efilter=edzed.not_from_undef)
            if b.get('src') == 'counter':
                blks[i] = edzed.Counter(b['name'], initdef=b['init'], **kw)
            else:
                blks[i] = edzed.Input(b['name'], initdef=b['init'], **kw)
        for i in order:
            b = stim['blocks'][i - 1]
            if b['s']:
                continue
            k = b['k']
            kw = {}
            if b.get('fb'):
                evs = [edzed.Event(stim['blocks'][s - 1]['name'], 'put') for s in b['fb']]
                kw['on_output'] = evs if len(evs) > 1 else evs[0]
            if k == 'not':
                blk = edzed.Not(b['name'], **kw)
            elif k == 'and':
                blk = edzed.And(b['name'], **kw)
            elif k == 'or':
                blk = edzed.Or(b['name'], **kw)
            elif k == 'xor':
                blk = edzed.Xor(b['name'], **kw)
            elif k == 'id':
                blk = edzed.FuncBlock(b['name'], func=lambda x: x, **kw)
            elif k == 'compare':
                blk = edzed.Compare(b['name'], low=b['p1'], high=b['p2'], **kw)
            elif k == 'override':
                blk = edzed.Override(b['name'], null_value=b['p1'], **kw)
            elif k == 'wsum':
                blk = edzed.FuncBlock(b['name'], func=lambda *a: wfunc(a), **kw)
            elif k == 'wsum_np':
                # unpack=False: the unnamed inputs come as ONE tuple (it has a length, can be indexed
                # and iterated more than once)
                blk = edzed.FuncBlock(b['name'], func=lambda a: wfunc(a) + 0 * len(a) + 0 * sum(a[:1]),
                                      unpack=False, **kw)
            elif k == 'wsum_named':
                blk = edzed.FuncBlock(b['name'], func=lambda x, y, g: wfunc((x, y) + tuple(g)), **kw)
            elif k == 'mixf':
                blk = edzed.FuncBlock(b['name'], func=lambda x, sel: float(x) if sel else int(x), **kw)
            elif k == 'typ':
                blk = edzed.FuncBlock(b['name'], func=lambda x: isinstance(x, float), **kw)
            else:
                raise ValueError(k)
            blks[i] = blk
        for i in order:
            b = stim['blocks'][i - 1]
            if b['s']:
                continue
            # objects of blocks created later are not available: fall back to names
            refs = []
            for r in b['ins']:
                if r['t'] == 'blk' and r['x'] not in blks:
                    r = dict(r, t='name')
                refs.append(ref(r))
            if b['k'] == 'override':
                blks[i].connect(input=refs[0], override=refs[1])
            elif b['k'] == 'wsum_named':
                blks[i].connect(x=refs[0], y=refs[1], g=refs[2:])
            elif refs:
                blks[i].connect(*refs)      # an empty group = a block that is not connected
        return blks

    def outs(circuit):
        res = []
        for nm in names:
            try:
                res.append(code(circuit.findblock(nm).output))
            except KeyError:
                res.append(-999998)
        return res

    info = {}

    async def script(circuit, ctx, loop, clock):
        info['nblocks'] = len(list(circuit.getblocks()))

        def end_of_burst():
            err = circuit.error
            if err is None and circuit.sblock_queue.empty():
                log.append({'ev': 'idle', 'outs': outs(circuit)})
                return True
            if isinstance(err, edzed.EdzedCircuitError) and 'instability' in str(err):
                log.append({'ev': 'unstable'})
            else:
                log.append({'ev': 'error', 'what': repr(err)[:200]})
            return False
        # consistent from the very moment wait_init() returns (no yield since then)
        if not end_of_burst():
            return
        await rt.settle(3)
        if not end_of_burst():
            return
        sidx = [i for i, b in enumerate(stim['blocks'], 1) if b['s']]
        for burst in stim['bursts']:
            for s, etype, val in burst:
                blk = blks[s]
                before = {i: blks[i].output for i in sidx}
                try:
                    if etype == 'putf':
                        edzed.ExtEvent(blk).send(float(val))    # equal to the integer, another object
                    elif etype == 'put':
                        edzed.ExtEvent(blk).send(val)
                    else:
                        edzed.ExtEvent(blk, etype).send()
                except edzed.EdzedUnknownEvent as err:
                    if not stim['blocks'][s - 1].get('bad'):
                        log.append({'ev': 'send_failed', 'what': repr(err)[:200]})
                        return
                except edzed.EdzedError as err:
                    log.append({'ev': 'send_failed', 'what': repr(err)[:200]})
                    return
                log.append({'ev': 'put', 's': s, 'v': code(blk.output)})
                # sequential blocks changed by forwarded events, in the order of the chain
                nxt = stim['blocks'][s - 1].get('fwd')
                seen = {s}
                while nxt and nxt not in seen:
                    seen.add(nxt)
                    if blks[nxt].output is not before[nxt] or blks[nxt].output != before[nxt]:
                        log.append({'ev': 'put', 's': nxt, 'v': code(blks[nxt].output)})
                    nxt = stim['blocks'][nxt - 1].get('fwd')
            # the simulator handles a whole burst in one step of its task: one yield is enough
            # (long chains: and more than one would hide a simulator that settles in slices)
            await rt.settle(1 if stim.get('big') else 3)
            if not end_of_burst():
                return

    edzed.CBlock.eval_block = wrapped
    try:
        rt.run_circuit(build, script)
    finally:
        edzed.CBlock.eval_block = orig_eval
    acyclic, total = analyse(hdr)
    sinit = [b.get('init', 0) if b['s'] else 0 for b in stim['blocks']] + [0] * (len(hdr) - len(stim['blocks']))
    header = {'blocks': hdr, 'names': names, 'sinit': sinit, 'nblocks': info.get('nblocks', -1),
              'noalarm': bool(acyclic and total is not None and total <= 3 * len(hdr)),
              'acyclic': acyclic, 'paths': total if total is not None else -1}
    # values that grew (through feedback events) beyond what the integer codes can carry: the
    # run is judged up to that point only
    for k, e in enumerate(log):
        vals = [e.get('v')] + list(e.get('outs', []))
        if -999999 in vals:
            del log[k:]
            break
    return {'hdr': header, 'ev': log}
