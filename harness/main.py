"""
Entry point:  python -m harness.main <ID> [quick|thorough] [--replay PATH]

Pipeline per property (DESIGN.md section 2):
  (A) model-check the TLA+ module(s) with TLC,
  (B) produce stimuli (TLC-exported behaviours + enumerators + seeded random),
  (C) execute them on the real edzed from /repo under the virtual-time loop, record traces,
      validate all traces in batch against the trace specification with TLC.
Exit 0: property held on everything explored; exit 1 + "VIOLATION property=<id> replay=<path>";
exit 2: machinery failure (never reported as a violation).
"""
from __future__ import annotations

import hashlib
import importlib
import json
import multiprocessing as mp
import os
import sys
import time
import traceback

VERIF = os.path.dirname(os.path.dirname(os.path.abspath(__file__)))
REPO = os.environ.get('VERIF_REPO', '/repo')

from . import tlc                      # noqa: E402
from .tlc import MachineryError        # noqa: E402

SCRATCH_RUN = os.path.realpath(REPO) != '/repo'
DRIVERS = {f'C{n:02d}': f'harness.drivers.c{n:02d}' for n in range(1, 21)}


def canon(obj) -> str:
    return json.dumps(obj, sort_keys=True, separators=(',', ':'), default=str)


def sha(obj) -> str:
    return hashlib.sha1(canon(obj).encode()).hexdigest()


class Hang(BaseException):
    """A single execution exceeded the watchdog limit (normal executions take milliseconds)."""


WATCHDOG_S = float(os.environ.get('VERIF_WATCHDOG', '20'))


def _on_alarm(signum, frame):
    raise Hang()


def _exec_one(args):
    modname, stim = args
    drv = importlib.import_module(modname)
    import logging
    logging.disable(logging.CRITICAL)
    import warnings
    warnings.simplefilter('ignore')
    import signal
    signal.signal(signal.SIGALRM, _on_alarm)
    signal.setitimer(signal.ITIMER_REAL, WATCHDOG_S)
    try:
        return ('ok', drv.execute(stim))
    except Hang:
        import asyncio
        try:
            asyncio.set_event_loop(None)
        except Exception:
            pass
        return ('crash', 'hang', f'execution did not finish within {WATCHDOG_S} s (busy loop?)')
    except Exception as err:        # classify: raised inside edzed or inside the harness?
        tb = err.__traceback__
        last = None
        while tb is not None:
            last = tb
            tb = tb.tb_next
        fname = last.tb_frame.f_code.co_filename if last else ''
        text = ''.join(traceback.format_exception(type(err), err, err.__traceback__))[-3000:]
        if os.path.realpath(fname).startswith(os.path.realpath(REPO) + os.sep):
            where = f'{type(err).__name__}@{last.tb_frame.f_code.co_name}'
            return ('crash', where, text)
        return ('machinery', text)
    finally:
        signal.setitimer(signal.ITIMER_REAL, 0)


def _exec_indexed(args):
    i, modname, stim = args
    return i, _exec_one((modname, stim))


def execute_all(modname: str, stimuli: list, procs: int = 16) -> list:
    if procs <= 1 or len(stimuli) < 8:
        return [_exec_one((modname, s)) for s in stimuli]
    ctx = mp.get_context('fork')
    results = [('skipped',)] * len(stimuli)
    hangs = 0
    with ctx.Pool(min(procs, os.cpu_count() or 1)) as pool:
        it = pool.imap_unordered(_exec_indexed, [(i, modname, s) for i, s in enumerate(stimuli)])
        while True:
            try:
                # (a worker killed from outside never delivers its chunk: do not wait for ever)
                i, r = it.next(timeout=300)
            except StopIteration:
                break
            except mp.TimeoutError:
                pool.terminate()
                raise MachineryError('no result from the worker pool for 300 s (a worker process died?)')
            results[i] = r
            if r[0] == 'crash' and r[1] == 'hang':
                hangs += 1
                if hangs >= 3:          # enough evidence; do not wait for every other hang
                    pool.terminate()
                    break
    return results


def load_findings() -> list:
    path = os.path.join(VERIF, 'known_findings.json')
    if not os.path.exists(path):
        return []
    with open(path) as f:
        return json.load(f).get('findings', [])


def write_replay(prop: str, payload: dict) -> str:
    d = os.path.join(VERIF if not SCRATCH_RUN else '/tmp/edzverif-scratch', 'replays', prop)
    os.makedirs(d, exist_ok=True)
    path = os.path.join(d, sha(payload.get('stim', payload)) + '.json')
    with open(path, 'w') as f:
        json.dump(payload, f, indent=1, default=str)
    return path


def write_evidence(prop: str, ev: dict) -> None:
    if SCRATCH_RUN:         # development runs against a scratch copy never touch the evidence
        return
    d = os.path.join(VERIF, 'evidence')
    os.makedirs(d, exist_ok=True)
    with open(os.path.join(d, f'{prop}.json'), 'w') as f:
        json.dump(ev, f, indent=1, default=str)


def run_models(drv, tier, seed, ev) -> tuple[dict, list]:
    """Model-check the design. Returns (context for stimuli, list of model violations)."""
    ctx = {}
    violations = []
    ev['coverage']['model_runs'] = []
    for m in drv.models(tier, seed):
        name = m.pop('name', m['spec'])
        expect = m.pop('expect_violation', None)
        r = tlc.run_apalache(**m) if m.pop('tool', 'tlc') == 'apalache' else tlc.run_tlc(**m)
        rec = {'name': name, 'cmd': r.cmd, 'generated': r.generated, 'distinct': r.distinct,
               'depth': r.depth, 'wall_s': round(r.wall, 2), 'violated': r.violated}
        if r.coverage:
            rec['action_coverage'] = {k: v[1] for k, v in r.coverage.items()}
            zero = sorted(k for k, v in r.coverage.items() if v[1] == 0)
            if zero:
                rec['vacuity_warning_actions_never_taken'] = zero
        ev['coverage']['model_runs'].append(rec)
        ev['coverage']['states'] += r.distinct
        ev['coverage']['transitions'] += r.generated
        ctx[name] = r
        if expect is not None:
            # sharpness self-test: the deviating design must violate the named invariant
            if r.violated is None:
                raise MachineryError(
                    f'sharpness self-test {name}: TLC found no violation of {expect}')
            rec['sharpness_selftest'] = f'the model checker found the expected violation of {r.violated}'
        elif r.violated:
            violations.append({'kind': 'model', 'model': name, 'violated': r.violated,
                               'tlc_tail': r.out[-4000:]})
    return ctx, violations


def _corrupt(trace: dict, kind: str, rnd) -> dict | None:
    """one corrupted copy of an accepted trace: a dropped line, two swapped lines, a changed field"""
    import copy
    tr = copy.deepcopy(trace)
    evs = tr.get('ev', [])
    if len(evs) < 3:
        return None
    if kind == 'drop':
        del evs[rnd.randrange(len(evs) - 1)]
        return tr
    if kind == 'swap':
        cand = [i for i in range(len(evs) - 1) if evs[i] != evs[i + 1]]
        if not cand:
            return None
        i = rnd.choice(cand)
        evs[i], evs[i + 1] = evs[i + 1], evs[i]
        return tr
    # change one integer / boolean field of one line
    order = list(range(len(evs)))
    rnd.shuffle(order)
    for i in order:
        keys = [k for k, v in evs[i].items() if isinstance(v, (bool, int)) and k not in ('t', 'lt')]
        if keys:
            k = rnd.choice(sorted(keys))
            v = evs[i][k]
            evs[i][k] = (not v) if isinstance(v, bool) else v + 1
            return tr
    return None


def corruption_selftest(drv, traces, verdicts, groups, seed) -> dict:
    """
    Demonstrate that the trace specifications constrain the recorded executions: corrupted
    copies of accepted traces must be rejected (DESIGN.md section 8).  Reported in the
    evidence file; a specification that accepts every corruption is a machinery failure.
    """
    import random as _random
    rnd = _random.Random(seed)
    report = {}
    for spec_name, idxs in groups.items():
        good = [i for i in idxs if verdicts[i] is not None and verdicts[i].accepted and len(traces[i].get('ev', [])) >= 3]
        if not good:
            continue
        sample = rnd.sample(good, min(8, len(good)))
        bad, kinds = [], []
        for i in sample:
            for kind in ('drop', 'swap', 'field'):
                c = _corrupt(traces[i], kind, rnd)
                if c is not None:
                    bad.append(c)
                    kinds.append(kind)
        if not bad:
            continue
        try:
            vs, _ = tlc.validate_traces(spec_name, bad, consts=getattr(drv, 'TRACE_CONSTS', ''), shards=1,
                                        deque=getattr(drv, 'DEQUE', False))
        except MachineryError:
            # a corrupted line may be outside the domain of the specification's operators
            # (e.g. an index that does not exist): TLC stops with an evaluation error, which
            # is a rejection too - the self-test never turns that into a failure of the check
            report[spec_name] = {'note': f'TLC could not evaluate a corrupted trace (of {len(bad)}): counted as rejected'}
            continue
        rej = {k: [0, 0] for k in ('drop', 'swap', 'field')}
        for k, v in zip(kinds, vs):
            rej[k][1] += 1
            if not v.accepted:
                rej[k][0] += 1
        report[spec_name] = {k: f'{a}/{b} rejected' for k, (a, b) in rej.items()}
        if sum(a for a, _ in rej.values()) == 0:
            raise MachineryError(f'corruption self-test: {spec_name} accepted all {len(bad)} corrupted traces')
    return report


def check(prop: str, tier: str, seed: int, replay: str | None = None) -> int:
    t0 = time.time()
    drv = importlib.import_module(DRIVERS[prop])
    level = getattr(drv, 'LEVEL', 'model_checking')
    ev = {'property_id': prop, 'tier': tier, 'seed': seed, 'level': level,
          'coverage': {'states': 0, 'transitions': 0, 'traces_validated_against_impl': 0,
                       'evaluations': 0, 'distinct_nontrivial': 0,
                       'rule': getattr(drv, 'RULE', ''), 'samples': [],
                       'explanation': getattr(drv, 'EXPLANATION', '')},
          'assumptions': list(getattr(drv, 'ASSUMPTIONS', [])) + [
              'TLC 1.8 and the CommunityModules JSON reader are trusted',
              'CPython asyncio semantics; the virtual loop changes only time() and selector blocking',
              f'edzed imported from {REPO} working tree'],
          'wall_s': 0.0, 'violations': 0}
    violations: list = []
    known_hit: dict = {}
    if replay:
        with open(replay) as f:
            payload = json.load(f)
        if payload.get('kind') == 'model':
            stimuli = []
        else:
            stimuli = [payload['stim']]
        ctx, mviol = ({}, [])
        if not stimuli:
            ctx, mviol = run_models(drv, tier, seed, ev)
            violations += mviol
    else:
        ctx, mviol = run_models(drv, tier, seed, ev)
        violations += mviol
        stimuli = list(drv.stimuli(tier, seed, ctx))

    findings = [f for f in load_findings() if f.get('property') == prop]
    known = {f['key']: f for f in findings if f.get('status') == 'known'}

    results = execute_all(DRIVERS[prop], stimuli) if stimuli else []
    traces, tstim = [], []
    crashes = []
    for stim, r in zip(stimuli, results):
        if r[0] == 'ok':
            # one execution may yield several traces (e.g. one per block of a chain)
            for tr in (r[1] if isinstance(r[1], list) else [r[1]]):
                traces.append(tr)
                tstim.append(stim)
        elif r[0] == 'crash':
            crashes.append((stim, r[1], r[2]))
        elif r[0] == 'skipped':
            continue
        else:
            raise MachineryError('driver failure:\n' + r[1])
    ev['coverage']['evaluations'] = len(stimuli)

    def report(key, payload):
        if key in known:
            known_hit.setdefault(key, 0)
            known_hit[key] += 1
        else:
            violations.append(payload)

    for stim, where, text in crashes:
        report(f'crash:{where}', {'kind': 'crash', 'stim': stim, 'where': where, 'traceback': text})

    if traces:
        shards = getattr(drv, 'SHARDS', {'quick': 4, 'thorough': 8})[tier]
        # a driver may record traces for more than one trace specification (trace['_spec'])
        groups: dict = {}
        for i, tr in enumerate(traces):
            groups.setdefault(tr.pop('_spec', drv.TRACE_SPEC), []).append(i)
        verdicts = [None] * len(traces)
        ev['coverage']['trace_validation'] = []
        for spec_name, idxs in groups.items():
            vs, tstats = tlc.validate_traces(
                spec_name, [traces[i] for i in idxs], consts=getattr(drv, 'TRACE_CONSTS', ''),
                shards=shards, deque=getattr(drv, 'DEQUE', False))
            for i, v in zip(idxs, vs):
                verdicts[i] = v
            ev['coverage']['trace_validation'].append({
                'spec': spec_name, 'traces': len(idxs), 'states_generated': tstats['generated'],
                'distinct_states': tstats['distinct'], 'wall_s': round(tstats['wall'], 2),
                'cmd': tstats['cmd']})
            ev['coverage']['states'] += tstats['distinct']
            ev['coverage']['transitions'] += tstats['generated']
        ev['coverage']['binding_selftest'] = corruption_selftest(drv, traces, verdicts, groups, seed)
        seen = set()
        nontriv = 0
        accepted = 0
        for stim, trace, v in zip(tstim, traces, verdicts):
            h = sha([stim, trace.get('hdr')])
            if h not in seen:
                seen.add(h)
                try:
                    if drv.nontrivial(stim, trace):
                        nontriv += 1
                except Exception:
                    pass
            if v.accepted:
                accepted += 1
                continue
            if v.inv:
                why = {'invariant': v.inv[0][1], 'at_line': v.inv[0][0]}
            else:
                evs = trace.get('ev', [])
                why = {'first_unmatched_line': v.maxl,
                       'event': evs[v.maxl - 1] if 0 < v.maxl <= len(evs) else None,
                       'spec_state_before': v.last_state}
            key = drv.signature(stim, trace, why)
            report(key, {'kind': 'trace', 'stim': stim, 'trace': trace, 'verdict': why,
                         'signature': key})
        ev['coverage']['traces_validated_against_impl'] = accepted
        ev['coverage']['distinct_nontrivial'] = nontriv
        # vacuity guard: a run whose executions hardly ever reach the interesting part (e.g. a
        # wrapper of the harness breaking every start-up) must not pass as "held"
        floor = getattr(drv, 'MIN_NONTRIVIAL', 0.02)
        if not replay and not violations and len(traces) >= 50 and nontriv < floor * len(traces):
            raise MachineryError(f'vacuous run: only {nontriv} non-trivial executions out of {len(traces)}')
        ev['coverage']['distinct_stimuli'] = len(seen)
        ev['coverage']['samples'] = [traces[i] for i in
                                     sorted({0, len(traces) // 2, len(traces) - 1})][:3]
    if hasattr(drv, 'extra_evidence'):
        ev['coverage'].update(drv.extra_evidence())
    if not ev['coverage']['samples']:
        ev['coverage']['samples'] = [{'note': 'no traces in this run'}]

    for key, n in known_hit.items():
        print(f"KNOWN-FINDING: property={prop} {known[key]['what']} [{key}] ({n} executions)")
    ev['coverage']['known_findings_hit'] = known_hit
    ev['violations'] = len(violations)
    ev['wall_s'] = round(time.time() - t0, 2)
    if not replay:
        write_evidence(prop, ev)
    if violations:
        shown = set()
        for v in violations:
            path = write_replay(prop, v)
            sig = v.get('signature') or v.get('where') or v.get('violated')
            if sig in shown and len(shown) >= 1:
                continue
            shown.add(sig)
            print(f'VIOLATION property={prop} replay={path}')
            print(f'  signature: {sig}')
            if v['kind'] == 'trace':
                print(f'  verdict: {canon(v["verdict"])[:600]}')
        print(f'{prop}: {len(violations)} violating executions, {len(shown)} distinct signatures')
        return 1
    c = ev['coverage']
    print(f"{prop} {tier}: OK  model states={c['states']} transitions={c['transitions']} "
          f"traces accepted={c['traces_validated_against_impl']}/{len(traces)} "
          f"nontrivial={c['distinct_nontrivial']} wall={ev['wall_s']}s")
    return 0


def main(argv=None) -> int:
    argv = list(sys.argv[1:] if argv is None else argv)
    replay = None
    if '--replay' in argv:
        i = argv.index('--replay')
        replay = argv[i + 1]
        del argv[i:i + 2]
    if not argv:
        print(__doc__)
        return 2
    prop = argv[0].upper()
    tier = argv[1] if len(argv) > 1 else os.environ.get('VERIF_TIER', 'quick')
    if tier not in ('quick', 'thorough'):
        tier = 'quick'
    seed = int(os.environ.get('VERIF_SEED', '20240929') or 0)
    if REPO not in sys.path:
        sys.path.insert(0, REPO)
    os.environ.setdefault('EDZED_VERIF', '1')
    try:
        return check(prop, tier, seed, replay)
    except MachineryError as err:
        print(f'MACHINERY-FAILURE property={prop}: {err}', file=sys.stderr)
        return 2
    except Exception:
        print(f'MACHINERY-FAILURE property={prop}:', file=sys.stderr)
        traceback.print_exc()
        return 2


if __name__ == '__main__':
    sys.exit(main())
