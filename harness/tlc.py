"""
Thin wrapper around TLC: exhaustive / simulation model checking, behaviour export and
batch trace validation.  All scratch data goes to a private temp directory that is removed
afterwards.  A TLC problem that is not a verdict (parse error, crash, unparsable output)
raises MachineryError -> exit 2 in main.
"""
from __future__ import annotations

import json
import os
import re
import shutil
import subprocess
import tempfile
import time
from dataclasses import dataclass, field

VERIF = os.path.dirname(os.path.dirname(os.path.abspath(__file__)))
SPEC_DIR = os.path.join(VERIF, 'spec')
JAR = '/opt/veriftools/tla/tla2tools.jar:/opt/veriftools/tla/CommunityModules-deps.jar'


class MachineryError(Exception):
    """The machinery (not the property) failed."""


@dataclass
class TlcResult:
    ok: bool                      # no invariant/property violated, no error
    generated: int = 0            # states generated (transitions incl. initial states)
    distinct: int = 0             # distinct states
    depth: int = 0
    violated: str | None = None   # name of violated invariant / property
    coverage: dict = field(default_factory=dict)   # action -> (distinct, generated)
    printed: list = field(default_factory=list)    # parsed PrintT tuples
    out: str = ''
    cmd: str = ''
    wall: float = 0.0


_RE_STATES = re.compile(r'(\d+) states generated, (\d+) distinct states found')
_RE_SIMSTATES = re.compile(r'The number of states generated: (\d+)')
_RE_DEPTH = re.compile(r'The depth of the complete state graph search is (\d+)')
_RE_INV = re.compile(r'Error: Invariant (\S+) is violated')
_RE_PROP = re.compile(r'Error: (Action|Temporal) propert(?:y|ies) (\S+)? ?(?:is|were) violated')
_RE_COV = re.compile(r'^<(\w+) line \d+, col \d+ to line \d+, col \d+ of module (\w+)>: (\d+):(\d+)', re.M)


def _scratch() -> str:
    return tempfile.mkdtemp(prefix='edzverif-tlc-')


def _parse_printed(out: str) -> list:
    """Collect values printed as  <<"TAG", ...>>  (possibly pretty-printed over several lines)."""
    res = []
    for m in re.finditer(r'^<<\s*"', out, re.M):
        try:
            v, _ = parse_tla_value(out, m.start(), prefix=True)
            res.append(v)
        except Exception:       # pragma: no cover - left for diagnosis
            res.append(('UNPARSED', out[m.start():m.start() + 200]))
    return res


def parse_tla_value(text: str, start: int = 0, prefix: bool = False):
    """Parse a TLA+ value as printed by TLC (tuples, sets, records, functions, strings, ints)."""
    pos = start
    n = len(text)

    def ws():
        nonlocal pos
        while pos < n and text[pos] in ' \t\r\n':
            pos += 1

    def value():
        nonlocal pos
        ws()
        if text.startswith('<<', pos):
            pos += 2
            items = seq('>>')
            return tuple(items)
        if text[pos] == '{':
            pos += 1
            items = seq('}')
            return ('set', tuple(items))
        if text[pos] == '[':
            pos += 1
            return record()
        if text[pos] == '(':
            # function printed as (k :> v @@ k :> v)
            pos += 1
            d = {}
            while True:
                ws()
                k = value()
                ws()
                assert text.startswith(':>', pos), text[pos:pos + 20]
                pos += 2
                v = value()
                d[k] = v
                ws()
                if text.startswith('@@', pos):
                    pos += 2
                    continue
                assert text[pos] == ')', text[pos:pos + 20]
                pos += 1
                return d
        if text[pos] == '"':
            pos += 1
            buf = []
            while text[pos] != '"':
                if text[pos] == '\\':
                    pos += 1
                    ch = text[pos]
                    buf.append({'n': '\n', 't': '\t'}.get(ch, ch))
                else:
                    buf.append(text[pos])
                pos += 1
            pos += 1
            return ''.join(buf)
        m = re.compile(r'-?\d+').match(text, pos)
        if m:
            pos = m.end()
            return int(m.group())
        m = re.compile(r'[A-Za-z_][A-Za-z0-9_]*').match(text, pos)
        if m:
            pos = m.end()
            w = m.group()
            return {'TRUE': True, 'FALSE': False}.get(w, w)
        raise ValueError(f'cannot parse at {pos}: {text[pos:pos + 30]!r}')

    def seq(close):
        nonlocal pos
        items = []
        ws()
        if text.startswith(close, pos):
            pos += len(close)
            return items
        while True:
            items.append(value())
            ws()
            if text[pos] == ',':
                pos += 1
                continue
            assert text.startswith(close, pos), text[pos:pos + 20]
            pos += len(close)
            return items

    def record():
        nonlocal pos
        d = {}
        ws()
        if text[pos] == ']':
            pos += 1
            return d
        while True:
            ws()
            m = re.compile(r'[A-Za-z_][A-Za-z0-9_]*').match(text, pos)
            assert m, text[pos:pos + 20]
            key = m.group()
            pos = m.end()
            ws()
            assert text.startswith('|->', pos), text[pos:pos + 20]
            pos += 3
            d[key] = value()
            ws()
            if text[pos] == ',':
                pos += 1
                continue
            assert text[pos] == ']', text[pos:pos + 20]
            pos += 1
            return d

    v = value()
    if prefix:
        return v, pos
    ws()
    if pos != n:
        raise ValueError(f'trailing text: {text[pos:pos + 30]!r}')
    return v


def run_tlc(spec: str, cfg: str | None = None, *, cfg_text: str | None = None,
            workers: int | str = 'auto', simulate: str | None = None, depth: int | None = None,
            seed: int | None = None, coverage: bool = False, env: dict | None = None,
            timeout: float = 3600, deque: bool = False, heap: str = '6g',
            extra: list | None = None, allow_violation: bool = True) -> TlcResult:
    """Run TLC on spec/<spec>.tla with spec/<cfg> or an ad-hoc cfg text."""
    scratch = _scratch()
    try:
        if cfg_text is not None:
            cfg_path = os.path.join(scratch, f'{spec}.cfg')
            with open(cfg_path, 'w') as f:
                f.write(cfg_text)
        else:
            cfg_path = os.path.join(SPEC_DIR, cfg or f'{spec}.cfg')
        if workers == 'auto':
            workers = min(16, os.cpu_count() or 1)
        # (TLC unpacks its standard modules into java.io.tmpdir and leaves them there: keep that
        # inside the scratch directory, which is removed afterwards)
        jopts = [f'-Xmx{heap}', '-XX:+UseParallelGC', f'-Djava.io.tmpdir={scratch}']
        if deque:
            jopts.append('-Dtlc2.tool.queue.IStateQueue=StateDeque')
        cmd = ['java', *jopts, '-cp', JAR, 'tlc2.TLC',
               '-workers', str(workers), '-metadir', os.path.join(scratch, 'meta'),
               '-noGenerateSpecTE', '-config', cfg_path]
        if simulate is not None:
            cmd += ['-simulate', simulate]
        if depth is not None:
            cmd += ['-depth', str(depth)]
        if seed is not None:
            cmd += ['-seed', str(seed)]
        if coverage:
            cmd += ['-coverage', '1']
        if extra:
            cmd += extra
        cmd.append(os.path.join(SPEC_DIR, f'{spec}.tla'))
        penv = dict(os.environ)
        penv.pop('JAVA_TOOL_OPTIONS', None)
        if env:
            penv.update(env)
        t0 = time.time()
        try:
            p = subprocess.run(cmd, cwd=scratch, env=penv, capture_output=True, text=True,
                               timeout=timeout)
        except subprocess.TimeoutExpired as err:
            raise MachineryError(f'TLC timeout after {timeout}s: {spec}') from err
        wall = time.time() - t0
        out = p.stdout + p.stderr
        res = TlcResult(ok=False, out=out, cmd=' '.join(cmd[cmd.index('tlc2.TLC'):]), wall=wall)
        ms = _RE_STATES.findall(out)
        if ms:
            res.generated, res.distinct = int(ms[-1][0]), int(ms[-1][1])
        else:
            m = _RE_SIMSTATES.search(out)
            if m:
                res.generated = res.distinct = int(m.group(1))
        m = _RE_DEPTH.search(out)
        if m:
            res.depth = int(m.group(1))
        for m in _RE_COV.finditer(out):
            name = f'{m.group(2)}!{m.group(1)}'
            d, g = int(m.group(3)), int(m.group(4))
            od, og = res.coverage.get(name, (0, 0))
            res.coverage[name] = (od + d, og + g)
        res.printed = _parse_printed(out)
        m = _RE_INV.search(out)
        if m:
            res.violated = m.group(1)
        elif 'is violated' in out or 'was violated' in out or 'violated.' in out:
            m2 = re.search(r'Error: (.*violated.*)', out)
            res.violated = m2.group(1) if m2 else 'property'
        if res.violated:
            if not allow_violation:
                raise MachineryError(f'TLC: {res.violated} violated in {spec}\n{out[-3000:]}')
            return res
        finished = ('Model checking completed. No error has been found' in out
                    or (simulate is not None and 'Error' not in out and p.returncode == 0))
        if not finished:
            # timeouts of -simulate are handled by num=, anything else is a machinery problem
            raise MachineryError(f'TLC failed on {spec} (rc={p.returncode}):\n{out[-4000:]}')
        res.ok = True
        return res
    finally:
        shutil.rmtree(scratch, ignore_errors=True)


def run_apalache(spec: str, *, init: str, inv: str, length: int, next_: str = 'Next',
                 timeout: float = 900) -> TlcResult:
    """Bounded symbolic check with Apalache (used for inductive invariants: init=IndInit, length=1)."""
    scratch = _scratch()
    try:
        cmd = ['apalache-mc', 'check', f'--init={init}', f'--next={next_}', f'--inv={inv}',
               f'--length={length}', f'--out-dir={scratch}/out', f'--run-dir={scratch}/run',
               os.path.join(SPEC_DIR, f'{spec}.tla')]
        penv = dict(os.environ)
        penv['JAVA_TOOL_OPTIONS'] = f'-Djava.io.tmpdir={scratch}'      # (SANY's unpacked standard modules)
        penv['JVM_ARGS'] = f'-Djava.io.tmpdir={scratch}'
        penv['TMPDIR'] = scratch
        t0 = time.time()
        try:
            p = subprocess.run(cmd, cwd=scratch, env=penv, capture_output=True, text=True, timeout=timeout)
        except subprocess.TimeoutExpired as err:
            raise MachineryError(f'Apalache timeout after {timeout}s: {spec}') from err
        out = p.stdout + p.stderr
        res = TlcResult(ok=False, out=out, cmd=' '.join(cmd[:-1] + [f'{spec}.tla']), wall=time.time() - t0)
        if 'EXITCODE: OK' in out and 'The outcome is: NoError' in out:
            res.ok = True
        elif 'The outcome is: Error' in out or 'invariant' in out and 'violated' in out:
            res.violated = inv
        else:
            raise MachineryError(f'Apalache failed on {spec} (rc={p.returncode}):\n{out[-3000:]}')
        return res
    finally:
        shutil.rmtree(scratch, ignore_errors=True)


@dataclass
class TraceVerdict:
    tid: int
    accepted: bool
    maxl: int                 # index of the first unmatched event (1-based) when rejected
    last_state: object = None
    inv: list = field(default_factory=list)   # [(l, name)] soft-invariant violations


def validate_traces(spec: str, traces: list, *, consts: str = '', shards: int = 1,
                    deque: bool = False, timeout: float = 3600,
                    invariants: list | None = None) -> tuple[list[TraceVerdict], dict]:
    """
    Validate recorded traces with spec/<spec>.tla (batch trace specification).

    Convention of every trace spec: `Traces == JsonDeserialize(IOEnv.TRACE_FILE)`,
    variables tid, l; operators TraceSpec, Book (CONSTRAINT), Accepted (POSTCONDITION).
    Book prints <<"INV", tid, l, name>> for a violated property invariant,
    Accepted prints <<"REJ", tid, maxl, state>> for each trace not consumed completely.
    """
    if not traces:
        raise MachineryError(f'no traces to validate for {spec}')
    from concurrent.futures import ThreadPoolExecutor
    shards = max(1, min(shards, len(traces)))
    chunks = [traces[i::shards] for i in range(shards)]
    idx = [list(range(len(traces)))[i::shards] for i in range(shards)]
    cfg_text = ('SPECIFICATION TraceSpec\nCONSTRAINT Book\nPOSTCONDITION Accepted\n'
                'CHECK_DEADLOCK FALSE\n' + consts)
    for inv in invariants or []:
        cfg_text += f'INVARIANT {inv}\n'
    stats = {'generated': 0, 'distinct': 0, 'wall': 0.0, 'cmd': ''}

    def one(k):
        d = tempfile.mkdtemp(prefix='edzverif-tr-')
        try:
            path = os.path.join(d, 'traces.json')
            with open(path, 'w') as f:
                json.dump(chunks[k], f)
            r = run_tlc(spec, cfg_text=cfg_text, workers=1, env={'TRACE_FILE': path},
                        timeout=timeout, deque=deque)
            return r
        finally:
            shutil.rmtree(d, ignore_errors=True)

    with ThreadPoolExecutor(max_workers=min(shards, 8)) as ex:
        results = list(ex.map(one, range(shards)))
    verdicts: list[TraceVerdict | None] = [None] * len(traces)
    for k, r in enumerate(results):
        stats['generated'] += r.generated
        stats['distinct'] += r.distinct
        stats['wall'] = max(stats['wall'], r.wall)
        stats['cmd'] = r.cmd
        if r.violated and r.violated not in ('Accepted',) and 'ostcondition' not in (r.violated or ''):
            if not any(p and p[0] in ('REJ', 'INV') for p in r.printed):
                raise MachineryError(f'trace validation of {spec} stopped: {r.violated}\n{r.out[-3000:]}')
        local: dict[int, TraceVerdict] = {}
        for p in r.printed:
            if not p:
                continue
            if p[0] == 'REJ':
                t = p[1]
                local[t] = TraceVerdict(idx[k][t - 1], False, p[2], p[3] if len(p) > 3 else None)
        for p in r.printed:
            if p and p[0] == 'INV':
                t = p[1]
                v = local.setdefault(t, TraceVerdict(idx[k][t - 1], True, 0))
                if (p[2], p[3]) not in v.inv:
                    v.inv.append((p[2], p[3]))
                v.accepted = False
        if 'TRACECHECK-DONE' not in r.out:
            raise MachineryError(f'trace validation of {spec} did not finish:\n{r.out[-4000:]}')
        summ = [p for p in r.printed if p and p[0] == 'SUMMARY']
        nrej = sum(1 for p in r.printed if p and p[0] == 'REJ')
        if not summ or summ[-1][1] != len(chunks[k]) or summ[-1][2] != nrej:
            raise MachineryError(
                f'trace validation of {spec}: summary {summ} does not match the parsed verdicts '
                f'({len(chunks[k])} traces, {nrej} REJ records)')
        for t in range(1, len(chunks[k]) + 1):
            v = local.get(t) or TraceVerdict(idx[k][t - 1], True, 0)
            verdicts[v.tid] = v
    return verdicts, stats   # type: ignore[return-value]


def sany(spec: str) -> None:
    p = subprocess.run(['java', f'-Djava.io.tmpdir={tempfile.gettempdir()}', '-cp', JAR, 'tla2sany.SANY',
                        os.path.join(SPEC_DIR, f'{spec}.tla')],
                       capture_output=True, text=True, cwd=SPEC_DIR)
    if p.returncode != 0 or 'error' in p.stdout.lower() and 'Semantic errors' in p.stdout:
        raise MachineryError(f'SANY failed for {spec}:\n{p.stdout[-3000:]}')
