"""Shared builder / executor for the life-cycle properties C08, C09 and C14 (LifecycleTrace.tla)."""
from __future__ import annotations

import asyncio
import os
import signal

from . import vt

TICK = 0.25
NONE = -1


class Boom(Exception):
    def __init__(self, code):
        super().__init__(f'injected fault {code}')
        self.code = code


def codes(text):
    return [ord(c) for c in text]


def execute(stim):
    import edzed
    lines = []
    st = {'loop': None, 't0': 0.0, 'got': None}
    blocks = stim['blocks']

    def tick():
        loop = st['loop']
        if loop is None:
            return 0
        x = (loop.time() - st['t0']) / TICK
        r = round(x)
        if abs(x - r) > 1e-6:
            raise RuntimeError('machinery: time off the tick grid')
        return r

    def rec(ev, **kw):
        lines.append(dict(ev=ev, t=tick(), **kw))

    def ecode(exc):
        if exc is None:
            return NONE
        if isinstance(exc, asyncio.CancelledError):
            return 0
        seen = set()
        e = exc
        while e is not None and id(e) not in seen:
            seen.add(id(e))
            if isinstance(e, Boom):
                return e.code
            e = e.__cause__
        if isinstance(exc, edzed.EdzedCircuitError):
            text = str(exc)
            if 'not initialized' in text:
                return 800
            if 'Unexpected task termination' in text:
                return 700
        return 999

    def fire(site, b, fatal):
        code = {'start': 100, 'init_regular': 200, 'eval': 300, 'main': 400, 'handler': 500,
                'stop': 600, 'stop_async': 610, 'init_async': 620, 'restore': 630}[site] + b
        doom = False        # (an init routine failing during an early initialisation by an external
        #                      event is as fatal as any other: the caller gets the exception AND the
        #                      simulation stops - repaired in edzed, see DESIGN.md section 7 no. 14)
        rec('fault', e=code, fatal=fatal, doom=doom, site=site)
        return Boom(code)

    def counting(cls, b, conf):
        fault = conf.get('fault')
        bases = (cls,)
        if fault == 'start_base':
            # the start fails in a base class that comes AFTER the library's add-ons in the method
            # resolution order: whatever an add-on's start() has set up before it called the next
            # start() belongs to a block that was never started
            class FaultyStartBase(edzed.SBlock):
                def start(self):
                    err = fire('start', b, True)
                    rec('start', b=b, ok=False)
                    raise err
            bases = (cls, FaultyStartBase)

        class C(*bases):
            def start(self):
                if fault == 'start':
                    err = fire('start', b, True)
                    rec('start', b=b, ok=False)
                    raise err
                super().start()
                rec('start', b=b, ok=True)

            def stop(self):
                rec('stop', b=b, inited=bool(self.is_initialized()))
                super().stop()
                if fault == 'stop':
                    raise fire('stop', b, False)

            def init_regular(self):
                if fault == 'init_regular':
                    raise fire('init_regular', b, True)
                if fault == 'init_regular_once' and not getattr(self, '_failed_once', False):
                    self._failed_once = True        # a transient failure: a second call would succeed
                    raise fire('init_regular', b, True)
                return super().init_regular()
        if getattr(cls, 'stop_async', None) is not edzed.SBlock.stop_async and issubclass(cls, edzed.AddonAsync):
            orig = cls.stop_async

            async def stop_async(self):
                rec('sa_begin', b=b)
                try:
                    if conf.get('slowstop'):
                        try:
                            await asyncio.sleep(conf['slowstop'] * TICK)
                        except asyncio.CancelledError:
                            if conf.get('cl'):
                                # timed out and cancelled: the routine needs a moment to wind up;
                                # the simulator must wait for it all the same
                                await asyncio.sleep(conf['cl'] * TICK)
                            raise
                    await orig(self)
                    if conf.get('busytail'):
                        # the clean-up routine ends with a blocking piece of code: timers that
                        # become due meanwhile are collected by the loop right afterwards
                        st['loop'].advance(conf['busytail'] * TICK)
                    if fault == 'stop_async':       # after the block's own housekeeping
                        raise fire('stop_async', b, False)
                finally:
                    rec('sa_end', b=b)
            C.stop_async = stop_async
        C.__name__ = cls.__name__ + 'Probe'
        return C

    class PlainBase(edzed.SBlock):
        def init_regular(self):
            self.set_output(0)

        def _event_put(self, **data):
            st['got'] = dict(data)
            value = data.get('value')
            if getattr(self, 'hfault', None) is not None and value == 666:
                err = fire('handler', self.hfault, True)
                if getattr(self, 'hexc', 'boom') == 'invalid':
                    # the handler fails with one of the library's own exceptions (a call it made was
                    # refused): an error inside a handler like any other
                    raise edzed.EdzedInvalidState('scripted: refused inside the handler') from err
                raise err
            self.set_output(value)
            if getattr(self, 'ctl', None) is not None and value == 7:
                self.ctl.send(self)
            return 'handled'

    class AuxFsm(edzed.FSM):
        STATES = ['x']
        EVENTS = [('ping', None, 'x')]

    class FsmDest(edzed.FSM):
        """an FSM destination: its entry action reads the event data after the exit events of the
        same transition were handled by another FSM"""
        STATES = ['a']
        EVENTS = [('put', None, 'a')]

        def _event(self, etype, data):
            self._cur = etype
            return 'handled' if super()._event(etype, data) else 'rejected'

        def enter_a(self):
            if isinstance(getattr(self, '_cur', None), str):
                st['got'] = dict(edzed.fsm_event_data.get())

    class PersistentPlain(edzed.AddonPersistence, PlainBase):
        """a plain block with the persistence add-on (another layer between send() and the handler)"""
        def _restore_state(self, state):
            self.set_output(state)

    class SlowStopBase(edzed.AddonAsync, edzed.SBlock):
        """a block with asynchronous clean-up only"""
        def init_regular(self):
            self.set_output(0)

        def _event_put(self, **data):
            st['got'] = dict(data)
            self.set_output(data.get('value'))
            return 'handled'

        async def stop_async(self):
            await asyncio.sleep(0)

    class CatcherBase(edzed.SBlock):
        """forwards 'put' to another block and swallows whatever comes back"""
        def init_regular(self):
            self.set_output(0)

        def _event_put(self, **data):
            try:
                self.fwd.send(self, value=data.get('value'))
            except Exception:
                pass
            st['got'] = dict(data)
            return 'handled'

    made = {}

    def ctrl_event(what, use_ctor, **kw):
        """the documented constructors Event.shutdown() / Event.abort(), or the long form"""
        if use_ctor:
            ctor = getattr(edzed.Event, what, None)
            if ctor is None:
                rec('api_missing', name=f'Event.{what}')
            elif not kw:
                return ctor()
        return edzed.Event('_ctrl', what, **kw) if kw else edzed.Event('_ctrl', what)

    def build(circuit):
        sink = PlainBase('sink')
        for b, conf in enumerate(blocks, 1):
            k = conf['kind']
            name = f'b{b}'
            fault = conf.get('fault')
            if k == 'fdest':
                if 'aux' not in made:
                    made['aux'] = AuxFsm('aux')
                # (not wrapped by counting(): FSM tables are built from the class's own namespace)
                blk = FsmDest(name, on_exit_a=edzed.Event('aux', 'ping'))
            elif k == 'pplain':
                blk = counting(PersistentPlain, b, conf)(name, persistent=True, sync_state=conf.get('sync', True))
            elif k == 'plain':
                blk = counting(PlainBase, b, conf)(name)
                if fault == 'handler':
                    blk.hfault = b
                    blk.hexc = conf.get('hexc', 'boom')
            elif k == 'catcher':
                blk = counting(CatcherBase, b, conf)(name)
                blk.fwd = edzed.Event(f'b{conf["to"]}', 'put')
            elif k == 'slowstop':
                blk = counting(SlowStopBase, b, conf)(name, stop_timeout=conf.get('tmo', 40) * TICK)
            elif k == 'timer':
                blk = counting(edzed.Timer, b, conf)(name, t_on=2 * TICK, t_off=2 * TICK)
            elif k == 'repeat':
                kw = {}
                if 'tmo' in conf:
                    kw['stop_timeout'] = conf['tmo'] * TICK
                blk = counting(edzed.Repeat, b, conf)(name, dest=sink, interval=2 * TICK, **kw)
            elif k == 'of':
                def fn(v, b=b):
                    rec('outrun', b=b, sd=(v == 'S'))
                    return v
                blk = counting(edzed.OutputFunc, b, conf)(
                    name, func=fn, on_error=None, stop_data={'value': 'S'} if conf.get('sd') else None)
            elif k == 'oa':
                async def co(v, b=b):
                    rec('outrun', b=b, sd=(v == 'S'))
                    await asyncio.sleep(conf.get('dur', 1) * TICK)
                blk = counting(edzed.OutputAsync, b, conf)(
                    name, coro=co, mode=conf.get('mode', 'w'), on_error=None,
                    stop_timeout=conf.get('tmo', 40) * TICK, stop_data={'value': 'S'} if conf.get('sd') else None)
            elif k == 'vp':
                state = {'n': 0}

                async def f(state=state, b=b, fault=fault):
                    if fault == 'main' and state['n'] >= 1:
                        raise fire('main', b, True)
                    await asyncio.sleep(conf.get('idur', 0) * TICK)
                    state['n'] += 1
                    return state['n']
                blk = counting(edzed.ValuePoll, b, conf)(
                    name, func=f, interval=2 * TICK, init_timeout=conf.get('itmo', 8) * TICK, initdef=-1)
            elif k == 'ia':
                async def slow(b=b, fault=fault):
                    if fault == 'init_async':
                        raise fire('init_async', b, False)
                    await asyncio.sleep(conf.get('idur', 4) * TICK)
                    return 7
                blk = counting(edzed.InitAsync, b, conf)(
                    name, init_coro=[slow], init_timeout=conf.get('itmo', 8) * TICK, initdef=5)
            elif k == 'badref':
                # an input given by a name that no block has: the start fails in its very first step
                # (the references are resolved before any block is started); nothing announces it
                rec('fault', e=700 + b, fatal=False, doom=True, site='finalize')
                blk = edzed.Not(name).connect('no_such_block')
            elif k == 'cb':
                def fn(x, b=b, fault=fault):
                    if fault == 'eval' and x == conf.get('trigger', 0):
                        raise fire('eval', b, True)
                    return x
                if conf.get('src'):             # share the source of another FuncBlock
                    src = made[f'src{conf["src"]}']
                else:
                    src = edzed.Input(f'src{b}', initdef=0)
                kw = {}
                if conf.get('ctrl'):
                    kw['on_output'] = ctrl_event(conf['ctrl'], False, efilter=edzed.not_from_undef)
                elif conf.get('to'):            # deliver the output to a block from inside the simulation task
                    kw['on_output'] = edzed.Event(f'b{conf["to"]}', 'put', efilter=edzed.not_from_undef)
                blk = edzed.FuncBlock(name, func=fn, **kw).connect(src)
                made[f'src{b}'] = src
            elif k == 'input':
                blk = counting(edzed.Input, b, conf)(name, initdef=0)
            elif k == 'trig':
                if conf.get('ctor'):
                    # Event.shutdown() / Event.abort() take no filter: send on every put instead
                    blk = counting(PlainBase, b, conf)(name)
                    blk.ctl = ctrl_event(conf['ctrl'], True)
                else:
                    # atinit: the very first output (set by init_regular, inside the simulation
                    # task) already requests the shutdown / abort
                    kw = {} if conf.get('atinit') else {'efilter': edzed.not_from_undef}
                    blk = counting(PlainBase, b, conf)(name, on_output=ctrl_event(conf['ctrl'], False, **kw))
            else:
                raise ValueError(k)
            made[b] = blk
        edzed.Not('keepalive').connect(sink)
        for nm in stim.get('names', []):
            try:
                PlainBase(nm)
                outcome = 'created'
            except (ValueError, TypeError):
                outcome = 'refused'
            rec('mkname', name=codes(nm), outcome=outcome)
        for nm in stim.get('autonames', []):
            # blocks without a name get an automatic one
            cls = type(nm, (PlainBase,), {})
            blk = cls(None)
            rec('blockname', name=codes(blk.name), auto=True)
        return made

    def hdr_blocks():
        res = []
        for b, conf in enumerate(blocks, 1):
            blk = made.get(b)
            is_async = (isinstance(blk, edzed.AddonAsync) and blk.has_method('stop_async')
                        and getattr(blk, 'stop_timeout', 0) > 0)
            tmo = round(getattr(blk, 'stop_timeout', 0) / TICK) if is_async else 0
            res.append({'async': bool(is_async), 'tmo': tmo, 'kind': conf['kind'],
                        'counted': isinstance(blk, edzed.SBlock),
                        'sd': bool(conf.get('sd')) and conf['kind'] in ('oa', 'of')})
        return res

    orig_abort = edzed.simulator.Circuit.abort
    orig_rf = edzed.simulator.Circuit.run_forever

    def abort_wrapped(self, exc):
        if self is st.get('circuit'):
            rec('abort', e=ecode(exc) if isinstance(exc, BaseException) else 999)
        return orig_abort(self, exc)

    async def rf_wrapped(self):
        if not (self is st.get('circuit') and self._simtask is None):
            return await orig_rf(self)
        rec('begin')
        try:
            return await orig_rf(self)
        except BaseException as err:     # noqa  (run_forever never returns normally)
            rec('finished', exc=ecode(err), errc=ecode(self.error))
            raise

    def send_ext(circuit, op):
        dest = made[op['dest']] if op['dest'] != 'ctrl' else '_ctrl'
        shape = op.get('shape', {})
        st['got'] = None
        kw = dict(shape.get('items', {}))
        src = shape.get('src')
        if src is not None:
            kw['source'] = src
        args = [shape['value']] if 'value' in shape else []
        if args and shape.get('vkw'):       # the value given by keyword
            kw['value'] = args.pop()
        ret = None
        try:
            ckw = {'source': shape['csrc']} if 'csrc' in shape else {}
            ret = edzed.ExtEvent(dest, op.get('etype', 'put'), **ckw).send(*args, **kw)
            outcome = 'delivered'
        except edzed.EdzedInvalidState:
            outcome = 'invalid' if st['got'] is None else 'delivered'      # (refused / the handler failed)
        except Boom:
            # the handler ran and failed - or the early initialisation of the destination failed
            outcome = 'delivered' if st['got'] is not None else 'initfail'
        except Exception as err:
            outcome = 'other:' + type(err).__name__
        got = st['got']
        deliv = got is not None
        gs = got.get('source') if got else None
        valok = restok = True
        if got is not None:
            # the item is there iff a value was given - whatever the value (None, 0, False, '' ...)
            valok = (('value' in got) == ('value' in shape) and got.get('value') == shape.get('value')
                     and type(got.get('value')) is type(shape.get('value')))
            restok = all(got.get(k) == v for k, v in shape.get('items', {}).items())
        if src is None and 'csrc' in shape:
            src = shape['csrc']         # (the source in effect)
        rec('ext', outcome=outcome, deliv=bool(deliv), retok=bool(ret == 'handled'), src=codes(src) if isinstance(src, str) else [-1],
            got=codes(gs) if isinstance(gs, str) else [-2], valok=bool(valok), restok=bool(restok),
            dest=str(op['dest']))

    result = {}

    def factory(loop, clock):
        async def main():
            circuit = edzed.get_circuit()
            st['circuit'] = circuit
            if any(c['kind'] == 'pplain' for c in blocks):
                import collections.abc

                class Storage(collections.abc.MutableMapping):
                    """a storage back-end; reading the record of a 'readerr' block fails (damaged file):
                    that is a failure of the state restoration - logged, nothing else"""
                    def __init__(self):
                        self.d, self.bad = {}, set()

                    def __getitem__(self, key):
                        if key in self.bad:
                            raise RuntimeError('scripted storage read error')
                        return self.d[key]

                    def __setitem__(self, key, value):
                        self.bad.discard(key)
                        self.d[key] = value

                    def __delitem__(self, key):
                        self.bad.discard(key)
                        del self.d[key]

                    def __iter__(self):
                        return iter(self.d)

                    def __len__(self):
                        return len(self.d)

                    def __contains__(self, key):
                        return key in self.d

                    def pop(self, key, *default):       # (removing a record does not read it)
                        self.bad.discard(key)
                        return self.d.pop(key, *default)
                sto = Storage()
                for b_, c_ in enumerate(blocks, 1):
                    if c_['kind'] == 'pplain' and c_.get('readerr'):
                        key = f"<PersistentPlainProbe 'b{b_}'>"
                        sto.d[key] = 1
                        sto.bad.add(key)
                circuit.set_persistent_data(sto)
            build(circuit)
            st['loop'], st['t0'] = loop, loop.time()
            if stim.get('pre_abort'):
                circuit.abort(Boom(900))
            if stim.get('pre_finalize'):
                circuit.finalize()          # the application may finalize the circuit itself: still not running
            for op in stim.get('pre_ops', []):
                send_ext(circuit, op)
            done = asyncio.Event()
            bg = []

            async def watch_init():
                try:
                    await circuit.wait_init()
                except BaseException:
                    return
                rec('inited')

            async def actions():
                bg.append(asyncio.create_task(watch_init(), name='harness-watch'))
                for op in stim['actions']:
                    delay = st['t0'] + op['t'] * TICK - loop.time()
                    if delay > 0:
                        await asyncio.sleep(delay)
                    for _ in range(op.get('yields', 0)):
                        await asyncio.sleep(0)
                    k = op['op']
                    if k == 'ext':
                        send_ext(circuit, op)
                    elif k == 'extbad':       # an external event the destination cannot accept
                        try:
                            if op['how'] == 'unknown':
                                edzed.ExtEvent(made[op['dest']], 'nosuchevent').send(1)
                            else:
                                edzed.ExtEvent(made[op['dest']], 'put').send()      # no value
                            outcome = 'accepted'
                        except edzed.EdzedInvalidState:
                            outcome = 'invalid'
                        except (TypeError, edzed.EdzedUnknownEvent):
                            outcome = 'reported'
                        except Exception as err:
                            outcome = 'other:' + type(err).__name__
                        rec('extbad', outcome=outcome, how=op['how'])
                    elif k == 'hit':          # trigger the handler / eval fault of a block
                        bconf = blocks[op['dest'] - 1]
                        ctrlreq = (bconf['kind'] == 'trig' and op.get('value') == 7 and not bconf.get('fault')
                                   and circuit.is_ready())
                        try:
                            if blocks[op['dest'] - 1]['kind'] == 'cb':
                                edzed.ExtEvent(made[f'src{op["dest"]}']).send(op.get('value', 666))
                            else:
                                edzed.ExtEvent(made[op['dest']]).send(op.get('value', 666))
                        except Exception:
                            ctrlreq = False
                        if ctrlreq:
                            # a block has just sent a 'shutdown' / 'abort' control event: the stop is
                            # requested by now (not some time later)
                            rec('ctrlreq')
                    elif k == 'abort':
                        circuit.abort(Boom(op['code']))
                    elif k == 'shutdown':
                        try:
                            await circuit.shutdown()
                        except BaseException:
                            pass
                    elif k == 'shutdown_bg':
                        # shutdown() is running in another task; after one yield it has made its
                        # request (this very task goes on before the simulation task is resumed)
                        bg.append(asyncio.create_task(circuit.shutdown(), name='harness-shutdown'))
                        await asyncio.sleep(0)
                        rec('stopreq')
                    elif k == 'sigterm':
                        os.kill(os.getpid(), signal.SIGTERM)
                    elif k == 'sigterm_idle':
                        # the signal arrives one tick later, while the loop is waiting in select()
                        loop.on_signal = lambda: rec('sigsent')
                        loop.signal_at = (loop.time() + TICK, signal.SIGTERM)
                    elif k == 'support_return':
                        return 'return'
                    elif k == 'support_fail':
                        rec('supfail', e=op['code'])
                        raise Boom(op['code'])
                return 'end'

            if stim['api'] == 'run':
                async def support():
                    r = await actions()
                    if r == 'end':
                        await asyncio.sleep(stim.get('linger', 40) * TICK)
                async def slow_cancel():
                    # a second supporting coroutine that needs a moment to handle its cancellation:
                    # run() waits for it, whatever made the simulation end
                    try:
                        await asyncio.sleep(10 ** 6)
                    except asyncio.CancelledError:
                        await asyncio.sleep(2 * TICK)
                        raise
                supp = [support()] + ([slow_cancel()] if stim.get('slowcancel') else [])
                mine = {t for t in asyncio.all_tasks()}
                try:
                    await edzed.run(*supp)
                    runres = NONE
                except asyncio.CancelledError:
                    runres = 0
                except BaseException as err:     # noqa
                    runres = ecode(err)
                task = circuit._simtask
                # tasks that edzed created and named (supporting tasks, block tasks) and that are still
                # pending when run() has returned (one loop iteration later: a task cancelled from a
                # synchronous stop() - stop_timeout=0 - ends only when the loop runs it once more)
                await asyncio.sleep(0)
                st['run_left'] = len([t for t in asyncio.all_tasks() if t not in mine and not t.done()
                                      and t.get_name().startswith('edzed')])
            else:
                task = asyncio.create_task(circuit.run_forever())
                await actions()
                if not task.done():
                    await asyncio.sleep(stim.get('linger', 40) * TICK)
                if not task.done():
                    try:
                        await circuit.shutdown()
                    except BaseException:
                        pass
                runres = None
            if task is not None:
                try:
                    await asyncio.wait([task])
                except BaseException:
                    pass
            if runres is not None:
                rec('runres', code=runres, left=st.get('run_left', 0))
            try:
                await circuit.shutdown()
                rec('shutres', code=NONE)
            except asyncio.CancelledError:
                rec('shutres', code=0)
            except BaseException as err:     # noqa
                rec('shutres', code=ecode(err))
            for t in bg:
                try:
                    await t
                except BaseException:
                    pass
            circuit.abort(Boom(950))            # a later abort() never replaces the error
            for op in stim.get('post_ops', []):
                send_ext(circuit, op)
            await asyncio.sleep(12 * TICK)
            me = asyncio.current_task()
            left = [t for t in asyncio.all_tasks() if t is not me and not t.done()]
            timers = [h for h in loop._scheduled if not h.cancelled()]
            try:
                await circuit.run_forever()
                restart = 'accepted'
            except edzed.EdzedInvalidState:
                restart = 'invalid'
            except BaseException as err:     # noqa
                restart = 'other:' + type(err).__name__
            try:
                edzed.Input('late', initdef=0)
                addblock = 'accepted'
            except edzed.EdzedInvalidState:
                addblock = 'invalid'
            except Exception as err:
                addblock = 'other:' + type(err).__name__
            if stim.get('names') or stim.get('autonames'):
                for blk in circuit.getblocks():
                    rec('blockname', name=codes(blk.name), auto=False)
            rec('after', ready=bool(circuit.is_ready()), restart=restart, addblock=addblock,
                tasks=len(left), timers=len(timers), errc=ecode(circuit.error),
                names=[t.get_name() for t in left][:5])
            result['hdr'] = hdr_blocks()
        return main()

    edzed.simulator.Circuit.abort = abort_wrapped
    edzed.simulator.Circuit.run_forever = rf_wrapped
    old = signal.getsignal(signal.SIGTERM)
    try:
        vt.run(factory)
    finally:
        edzed.simulator.Circuit.abort = orig_abort
        edzed.simulator.Circuit.run_forever = orig_rf
        signal.signal(signal.SIGTERM, old)
    # blocks that are not sequential (cb) have no start/stop records: not counted
    hdr = {'blocks': [{'async': h['async'], 'tmo': h['tmo'], 'sd': h['sd']} for h in result['hdr']], 'api': stim['api'],
           # blocking code in clean-up routines: no timeout can interrupt it
           'busy': sum((c.get('busytail') or 0) + (c.get('cl') or 0) for c in stim['blocks']),
           'check': stim.get('check', '')}
    return {'hdr': hdr, 'ev': lines}
