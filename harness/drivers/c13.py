"""C13 - interval specifications mean the same in every accepted notation."""
from __future__ import annotations

import datetime as dt
import random

PROP = 'C13'
LEVEL = 'other'
TRACE_SPEC = 'IntervalsTrace'
RULE = ('stimulus = batch of cases: abstract interval (0..3 ranges of time-of-day / date / date-time '
        'moments, incl. wrapping, equal and reversed endpoints, microseconds, leap day, year ends) '
        'rendered by the harness in one documented notation (traditional strings: H:M[:S[.f]], month '
        'names in any case abbreviated to >= 3 letters, day/month order, YYYY-MM-DD / YYYY-month-DD; '
        'ISO 8601 strings; integer sequences of every accepted length; mixed string/sequence ranges; '
        "separators '-', ' - ', '/'; delimiters ',' ';' with optional terminator; extra blanks) + probe "
        'moments (both endpoints and their +-1 us / +-1 day neighbours, random moments); documented-'
        'malformed inputs; distinct = SHA-1 of the case; non-trivial = a wrapping range or a string notation')
EXPLANATION = ('reference evaluation: normal form, round trips and the membership rules are TLA+ definitions '
               '(Intervals.tla, laws model-checked in MC_Intervals); TLC evaluates every recorded case. The '
               'regular expressions of timeinterval.py are not modelled: notations are produced by the '
               'harness renderer; ambiguous strings the documentation warns about (bare hyphen separator '
               'between hyphenated dates, decimal comma with comma delimiter) are not generated.')
ASSUMPTIONS = ['the harness renderer is trusted for the lexical side',
               'datetime (CPython) is trusted for calendar validity of the generated moments']
SHARDS = {'quick': 4, 'thorough': 8}
MONTHS = ['', 'January', 'February', 'March', 'April', 'May', 'June', 'July', 'August', 'September',
          'October', 'November', 'December']
DAYS = [0, 31, 29, 31, 30, 31, 30, 31, 31, 30, 31, 30, 31]


def models(tier, seed):
    return [dict(name='MC_Intervals laws', spec='MC_Intervals', cfg='MC_Intervals.cfg')]


# ------------------------------------------------------------ abstract moments
def _rt(rnd):
    r = rnd.random()
    if r < 0.15:
        return [0, 0, 0, 0]
    h = rnd.choice([0, 0, 1, 6, 9, 12, 15, 22, 23, rnd.randrange(24)])
    m = rnd.choice([0, 0, 30, 45, 59, rnd.randrange(60)])
    s = rnd.choice([0, 0, 0, 59, rnd.randrange(60)])
    us = rnd.choice([0, 0, 0, 500000, 999000, 999999, 1, rnd.randrange(10 ** 6)])
    return [h, m, s, us]


def _rd(rnd):
    if rnd.random() < 0.3:
        return list(rnd.choice([(1, 1), (12, 31), (2, 28), (2, 29), (3, 1), (12, 1), (1, 31)]))
    mo = rnd.randrange(1, 13)
    return [mo, rnd.randrange(1, DAYS[mo] + 1)]


def _rdt(rnd):
    y = rnd.choice([1990, 2010, 2015, 2020, 2023, 2024, 2025, 2030, 2031])
    mo, d = _rd(rnd)
    if (mo, d) == (2, 29) and y % 4:
        d = 28
    return [y, mo, d] + _rt(rnd)


# ------------------------------------------------------------ renderer
def _rcase(rnd, s):
    mode = rnd.random()
    if mode < 0.3:
        return s
    if mode < 0.5:
        return s.lower()
    if mode < 0.7:
        return s.upper()
    return ''.join(rnd.choice([ch.lower(), ch.upper()]) for ch in s)


def _month(rnd, mo):
    nm = MONTHS[mo]
    return _rcase(rnd, nm[:rnd.randint(3, len(nm))])


def _frac(rnd, us):
    digits = f'{us:06d}'
    if rnd.random() < 0.6:
        digits = digits.rstrip('0') or '0'
    return digits


def time_str(rnd, t, iso, comma_ok=True):
    h, m, s, us = t
    if iso:
        base = f'{h:02d}:{m:02d}'
        if s or us or rnd.random() < 0.4:
            base += f':{s:02d}'
            if us:
                base += rnd.choice(['.', ','] if comma_ok else ['.']) + rnd.choice([f'{us:06d}', f'{us:06d}'[:3]] if us % 1000 == 0 else [f'{us:06d}'])
        return ('T' if rnd.random() < 0.5 else '') + base
    two = rnd.random() < 0.5
    f = (lambda v: f'{v:02d}') if two else str
    base = f'{f(h)}:{f(m)}'
    if s or us or rnd.random() < 0.3:
        base += f':{f(s)}'
        if us:
            base += rnd.choice(['.', ','] if comma_ok else ['.']) + _frac(rnd, us)
    return base


def time_seq(rnd, t):
    seq = list(t)
    while len(seq) > 1 and seq[-1] == 0 and rnd.random() < 0.6:
        seq.pop()
    return seq if rnd.random() < 0.5 else tuple(seq)


def date_str(rnd, d, iso):
    mo, day = d
    if iso:
        return rnd.choice([f'--{mo:02d}{day:02d}', f'--{mo:02d}-{day:02d}'])
    nm = _month(rnd, mo)
    ds = rnd.choice([str(day), f'{day:02d}'])
    return rnd.choice([f'{nm} {ds}', f'{ds} {nm}', f'{ds}.{nm}', f'{nm}.{ds}', f'{ds}. {nm}.', f'{nm}. {ds}.',
                       f'{nm}  {ds}', f'{ds}{nm}'])


def dt_str(rnd, x, iso, comma_ok=True):
    y, mo, d = x[:3]
    t = x[3:]
    if iso:
        if rnd.random() < 0.5:
            h, m, s, us = t
            base = f'{y:04d}{mo:02d}{d:02d}T{h:02d}{m:02d}'
            if s or us:
                base += f'{s:02d}'
                if us:
                    base += f'.{us:06d}'
            return base
        return f'{y:04d}-{mo:02d}-{d:02d}T' + time_str(rnd, t, True, comma_ok).lstrip('T')
    ts = time_str(rnd, t, False, comma_ok)
    nm = _month(rnd, mo)
    ds = rnd.choice([str(d), f'{d:02d}'])
    forms = [f'{y} {nm} {ds} {ts}', f'{nm} {ds} {y} {ts}', f'{ts} {ds}.{nm} {y}', f'{ts} {nm}. {ds} {y}',
             f'{ds} {nm} {y}  {ts}', f'{y}-{mo:02d}-{d:02d} {ts}', f'{ts} {y}-{mo:02d}-{d:02d}',
             f'{y}-{nm}-{d:02d} {ts}', f'{ts}  {y}-{nm}-{d:02d}']
    return rnd.choice(forms)


def dt_seq(rnd, x):
    seq = list(x)
    while len(seq) > 5 and seq[-1] == 0 and rnd.random() < 0.6:
        seq.pop()
    return seq if rnd.random() < 0.5 else tuple(seq)


def render(rnd, kind, ranges):
    """abstract ranges -> (python argument for the Interval class, notation name)"""
    notation = rnd.choice(['str', 'str', 'iso', 'seq', 'mixed'])
    sfn = {'time': time_str, 'date': date_str, 'dt': dt_str}[kind]
    qfn = {'time': time_seq, 'date': lambda r, d: list(d) if r.random() < .5 else tuple(d), 'dt': dt_seq}[kind]
    if notation in ('str', 'iso'):
        iso = notation == 'iso'
        delim = rnd.choice([',', ';'])
        comma_ok = delim == ';'
        parts = []
        for a, b in ranges:
            if kind == 'date':
                ea, eb = sfn(rnd, a, iso), sfn(rnd, b, iso)
            else:
                ea, eb = sfn(rnd, a, iso, comma_ok), sfn(rnd, b, iso, comma_ok)
            hyph = '-' in ea or '-' in eb
            sep = rnd.choice(['/', ' / ', ' - ', '  -  '] + ([] if hyph else ['-']))
            if kind == 'date' and a == b and rnd.random() < 0.5:
                parts.append(ea)
            else:
                parts.append(ea + sep + eb)
        ws = lambda: ' ' * rnd.choice([0, 0, 1, 2])
        if any(',' in p for p in parts):
            delim = ';'         # a decimal comma needs the semicolon delimiter
        text = delim.join(ws() + p + ws() for p in parts)
        if parts and (rnd.random() < 0.4 or (delim == ';' and len(parts) == 1 and ',' in text)):
            text += delim       # the delimiter may also be used as a terminator
        return text, notation
    out = []
    for a, b in ranges:
        if notation == 'seq':
            out.append([qfn(rnd, a), qfn(rnd, b)])
        else:
            r = rnd.random()
            iso = rnd.random() < 0.4
            s = (lambda e: sfn(rnd, e, iso)) if kind == 'date' else (lambda e: sfn(rnd, e, iso, True))
            if r < 0.3:
                ea, eb = s(a), s(b)
                hyph = '-' in ea or '-' in eb
                out.append(ea + rnd.choice(['/', ' - '] + ([] if hyph else ['-'])) + eb)
            elif r < 0.6:
                out.append([s(a), qfn(rnd, b)])
            elif r < 0.8:
                out.append((qfn(rnd, a), s(b)))
            else:
                out.append([s(a), s(b)])
    if out and all(isinstance(x, str) for x in out) and len(set(out)) == len(out) and rnd.random() < 0.5:
        return set(out), notation       # a set of range strings is accepted as well
    return (out if rnd.random() < 0.7 else tuple(out)), notation


def _neighbours(kind, e):
    res = [list(e)]
    if kind == 'date':
        base = dt.date(404, e[0], e[1])
        for delta in (-1, 1):
            n = base + dt.timedelta(days=delta)
            if n.year != 404:
                n = dt.date(404, 12, 31) if delta < 0 else dt.date(404, 1, 1)
            res.append([n.month, n.day])
    elif kind == 'time':
        tot = ((e[0] * 60 + e[1]) * 60 + e[2]) * 10 ** 6 + e[3]
        for delta in (-1, 1):
            v = (tot + delta) % (86400 * 10 ** 6)
            res.append([v // (3600 * 10 ** 6), v // (60 * 10 ** 6) % 60, v // 10 ** 6 % 60, v % 10 ** 6])
    else:
        base = dt.datetime(*e)
        for delta in (-1, 1):
            n = base + dt.timedelta(microseconds=delta)
            res.append([n.year, n.month, n.day, n.hour, n.minute, n.second, n.microsecond])
    return res


BAD = {
    'time': ['25:00 - 1:00', '12:60/13:00', '7 - 8', 'abc', '12:00', '12:00 - ', ' - 12:00', '1:00-2:00-3:00',
             '1:00 - 2:00, 3:00 - 4:00; 5:00 - 6:00', 'T06:45Z/7:00', '06:45+01:00 / 7:00', '1:00:00:00/2:00',
             [[[24, 0], [1]]], [[[1, 60], [2]]], [[[1, 2, 3, 4, 5], [2]]], [[[], [2]]],
             [[[1], [2], [3]]], [[[1]]], [['1:00']], 5, None, [5], [['x', 'y']], 'Apr 1 - Apr 2',
             [[[1, 0, 0, 1000000], [2]]]],
    'date': ['Feb 30', 'Foo 1', '13.13', 'Ap 1', 'April', '1', '--1332', '--0230', 'Apr 1 - Apr', 'Apr 1 2020',
             '1:00 - 2:00', 'Apr 1 / Apr 2 / Apr 3', [[[13, 1], [1, 1]]], [[[2, 30]]], [[[1]]], [[[1, 1, 1]]],
             [[[0, 1], [1, 1]]], [[[1, 0], [1, 1]]], 7, None, [['1 1 apr']], 'Apr 32', 'Apr 0', '0 Apr',
             # digits on both sides of the month name: two day numbers, not one
             '3jul1', '1jul0', '2may5 - 3jun0', '1 jul 0', '3.jul.1', '1Dec2 / 2Dec1', '2 aug 5;'],
    'dt': ['2024-02-30 8:00 / 2025-01-01 8:00', 'April 1 8:00 / 2025-01-01 8:00', '1984-04-01 / 1985-04-01',
           '1984-04-01 8:00', '2023-02-29T08:00/2024-01-01T08:00', '2025-10-20T06:45:00+01:00/2026-01-01T00:00',
           '2025-10-20T06:45Z / 2026-01-01T00:00', '84-04-01 8:00 / 2025-01-01 8:00',
           '1984-4-1 8:00 / 2025-01-01 8:00', '2020-01-01T12:00-2025-12-31T12:00',
           [[[2024, 1, 1], [2025, 1, 1, 0, 0]]], [[[2024, 1, 1, 0], [2025, 1, 1, 0, 0]]],
           [[[2024, 13, 1, 0, 0], [2025, 1, 1, 0, 0]]], [[[2024, 1, 1, 0, 0, 0, 0, 0], [2025, 1, 1, 0, 0]]],
           [[[2024, 1, 1, 0, 0]]], 3.5, None, 'Foo 1 2024 8:00 / 2025-01-01 8:00',
           '2024 Apr 1 25:00 / 2025-01-01 8:00',
           # digits glued to both sides of a removed part (month name, year, time of day)
           '1jul20285 8:00 / 2029-01-01 8:00', '1 jan 2018:0028 / 2029-01-01 8:00',
           '2jul5 2028 8:00 / 2029-01-01 8:00', '1 2028 jul 1 8:00 / 2029-01-01 8:00',
           # text left over after a YYYY-MM-DD date and its time of day
           '2028-07-20 8:00 pm / 2029-01-01 8:00', '2028-07-20 08:00Z / 2029-01-01 8:00',
           '2028-07-20 08:00 +02:00 / 2029-01-01 8:00', '2028-07-20 8:00 1 / 2029-01-01 8:00',
           '2028-07-20 2028-07-21 8:00 / 2029-01-01 8:00', '2028-jul-20 8:00 x / 2029-01-01 8:00',
           '2001-01-01 0:00 - 2002-01-01 0:00 / 2999-01-01 0:00'],
}


def stimuli(tier, seed, ctx):
    rnd = random.Random(seed)
    cases = []
    n = 1500 if tier == 'quick' else 20000
    gen = {'time': _rt, 'date': _rd, 'dt': _rdt}
    for _ in range(n):
        kind = rnd.choice(['time', 'date', 'dt'])
        ranges = []
        for _ in range(rnd.choice([0, 1, 1, 1, 2, 2, 3])):
            a = gen[kind](rnd)
            r = rnd.random()
            b = list(a) if r < 0.12 else gen[kind](rnd)
            ranges.append([a, b])
        probes = []
        for a, b in ranges:
            probes += _neighbours(kind, a) + _neighbours(kind, b)
        for _ in range(4):
            probes.append(gen[kind](rnd))
        cases.append({'k': 'ival', 'kind': kind, 'abs': ranges, 'probes': probes,
                      'rseed': rnd.randrange(10 ** 9)})
    for kind, lst in BAD.items():
        for arg in lst:
            cases.append({'k': 'bad', 'kind': kind, 'arg': arg})
    rnd.shuffle(cases)
    return [{'cases': cases[i:i + 30]} for i in range(0, len(cases), 30)]


def execute(stim):
    from edzed.blocklib import timeinterval as ti
    CLS = {'time': ti.TimeInterval, 'date': ti.DateInterval, 'dt': ti.DateTimeInterval}
    lines = []
    for c in stim['cases']:
        cls = CLS[c['kind']]
        if c['k'] == 'bad':
            arg = c['arg']
            if isinstance(arg, list):
                arg = [tuple(x) if isinstance(x, list) and len(x) and not isinstance(x[0], (list, str)) else x
                       for x in arg] if False else arg
            try:
                cls(arg)
                err = False
            except (ValueError, TypeError):
                err = True
            lines.append({'ev': 'bad', 'kind': c['kind'], 'arg': repr(c['arg'])[:80], 'err': err})
            continue
        rnd = random.Random(c['rseed'])
        arg, notation = render(rnd, c['kind'], c['abs'])
        rec = {'ev': 'ival', 'kind': c['kind'], 'abs': c['abs'], 'notation': notation, 'arg': repr(arg)[:300],
               'err': False, 'as_list': [], 're_list': [], 're_str': [], 'probes': []}
        try:
            iv = cls(arg)
            rec['as_list'] = iv.as_list()
            rec['re_list'] = cls(iv.as_list()).as_list()
            rec['as_string'] = iv.as_string()
            rec['re_str'] = cls(iv.as_string()).as_list()
            for p in c['probes']:
                if c['kind'] == 'time':
                    obj = dt.time(*p)
                elif c['kind'] == 'date':
                    obj = dt.date(404, *p)
                else:
                    obj = dt.datetime(*p)
                rec['probes'].append({'p': p, 'isin': obj in iv})
        except (ValueError, TypeError) as err:
            rec['err'] = True
            rec['exc'] = repr(err)[:200]
        lines.append(rec)
    return {'hdr': {}, 'ev': lines}


def nontrivial(stim, trace):
    for e in trace['ev']:
        if e['ev'] == 'ival' and (e['notation'] != 'seq' or any(a >= b for a, b in e['abs'])):
            return True
    return False


def signature(stim, trace, why):
    e = why.get('event') or {}
    if e.get('ev') == 'bad':
        return f"reject:bad:{e.get('kind')}:{e.get('arg')}"
    return f"reject:{e.get('ev')}:{e.get('kind')}:{e.get('notation')}:err={e.get('err')}"
