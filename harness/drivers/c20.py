"""C20 - Counter arithmetic is exact and stays within the modulo range."""
from __future__ import annotations

import json
import random

from .. import rt

PROP = 'C20'
TRACE_SPEC = 'CounterTrace'
RULE = ('stimulus = (modulo, initdef, restored value, event sequence); distinct = SHA-1 of its '
        'canonical JSON; non-trivial = the sequence wraps around the modulo at least once '
        '(an unreduced result outside [0, M) occurred) or, without modulo, changes sign')
ASSUMPTIONS = ['numbers are integers or multiples of 1/2 (scaled by 2 for modulo 2.5), |x| < 2^30; '
               'with a modulo <= 2^15 also integers up to 2^90 (recorded as base-2^15 digits)']

NOMOD = -1


def models(tier, seed):
    return [
        dict(name='MC_Counter', spec='MC_Counter', cfg='MC_Counter.cfg', coverage=True),
        dict(name='export', spec='MC_Counter', cfg='MC_Counter_export.cfg', workers=1),
        # unbounded: InRange / ReturnIsOutput are inductive over all integers (Apalache, symbolic)
        dict(name='APA_Counter inductive step', tool='apalache', spec='APA_Counter', init='IndInit',
             inv='IndInv', length=1),
        dict(name='APA_Counter base case', tool='apalache', spec='APA_Counter', init='Init',
             inv='IndInv', length=0),
        dict(name='APA_Counter too strong (sharpness)', tool='apalache', spec='APA_Counter', init='IndInit',
             inv='TooStrong', length=1, expect_violation='TooStrong'),
    ]


def _mk(mod, scale, init, events, restored=None):
    return {'mod': mod, 'scale': scale, 'init': init, 'restored': restored, 'events': events}


def stimuli(tier, seed, ctx):
    rnd = random.Random(seed)
    out = []
    # (i) one implementation test per transition of the exhaustive state graph
    trans = {}
    for p in ctx['export'].printed:
        if p and p[0] == 'EXPORT':
            t = json.loads(p[1])
            trans.setdefault((t['mod'], t['initv'], t['pre']), set()).add((t['ev'], t['a']))
    keys = sorted(trans)
    if tier == 'quick':
        keys = [k for i, k in enumerate(keys) if i % 3 == seed % 3]
    for mod, initv, pre in keys:
        evs = []
        for ev, a in sorted(trans[(mod, initv, pre)]):
            evs.append(['put', pre])
            evs.append([ev, a])
        scale = 2 if mod == 5 else 1
        out.append(_mk(mod, scale, initv, evs))
    # (ii) random long sequences, large / negative numbers, restore of out-of-range values
    nrand = 300 if tier == 'quick' else 4000
    for _ in range(nrand):
        mod = rnd.choice([NOMOD, 1, 2, 7, 10, 5, 5, rnd.randint(1, 1000), rnd.randint(1, 2 ** 20)])
        scale = 2 if mod == 5 and rnd.random() < 0.8 else 1
        big = rnd.random() < 0.3
        lim = 2 ** 23 if big else 30

        def num():
            return rnd.randint(-lim, lim)
        init = num()
        restored = num() if rnd.random() < 0.4 else None
        evs = []
        for _ in range(rnd.randint(1, 8) if rnd.random() < 0.5 else rnd.randint(9, 40)):
            # resetv: a reset carrying data items it has no use for (as sent by an on_output event)
            ev = rnd.choice(['inc', 'dec', 'put', 'reset', 'resetv', 'inc1', 'dec1', 'putmissing'])
            evs.append([ev, num() if ev in ('inc', 'dec', 'put', 'resetv') else 0])
        out.append(_mk(mod, scale, init, evs, restored))
    # (ii-b) very large moduli: the last counts before the wrap-around are as exact as any other
    for _ in range(30 if tier == 'quick' else 400):
        mod = rnd.choice([2 ** 30 - 1, 10 ** 9, 2 ** 30 - 35])
        init = mod - rnd.randint(1, 6)
        evs = []
        for _ in range(rnd.randint(2, 10)):
            ev = rnd.choice(['inc', 'inc', 'inc1', 'dec', 'dec1', 'put'])
            evs.append([ev, rnd.randint(0, 4) if ev in ('inc', 'dec') else mod - rnd.randint(1, 4) if ev == 'put' else 0])
        out.append(_mk(mod, 1, init, evs, None))
    # (ii-c) amounts and values far beyond 2^53 (what a float holds exactly): Python integers are
    # exact, so is the counter
    for _ in range(40 if tier == 'quick' else 600):
        mod = rnd.choice([2, 7, 10, 37, 1000, 24, 32768, rnd.randint(2, 32768)])
        evs = []
        for _ in range(rnd.randint(2, 10)):
            ev = rnd.choice(['inc_big', 'dec_big', 'put_big', 'inc', 'dec1', 'inc_big'])
            if ev.endswith('_big'):
                a = rnd.choice([10 ** 18 + 1, 2 ** 64, 2 ** 53 + 1, rnd.randint(2 ** 53, 2 ** 90),
                                rnd.randint(2 ** 53, 2 ** 90), 10 ** rnd.randint(16, 30) + rnd.randint(0, 9)])
                a = a if rnd.random() < 0.7 else -a
            else:
                a = rnd.randint(0, 50) if ev == 'inc' else 0
            evs.append([ev, a])
        out.append(_mk(mod, 1, rnd.randint(0, 40), evs, None))
    # (iii) modulo = 0 is refused at construction
    out.append(_mk(0, 1, 0, []))
    return out


def _num(x, scale):
    """Scaled integer -> the Python number given to edzed."""
    if scale == 1:
        return x
    return x / scale


def _unscale(v, scale):
    if isinstance(v, bool) or not isinstance(v, (int, float)):
        return None             # (verdicts are total: a non-numeric result matches no action)
    w = v * scale
    if isinstance(w, float):
        if not w.is_integer():
            return None
        w = int(w)
    return w


def execute(stim):
    import edzed
    mod, scale, init = stim['mod'], stim['scale'], stim['init']
    restored = stim['restored']
    hdr = {'mod': mod, 'init': init, 'restored': restored if restored is not None else 0,
           'has_restored': restored is not None, 'scale': scale}
    if mod == 0:
        edzed.reset_circuit()
        try:
            edzed.Counter('cnt', modulo=0)
            refused = False
        except ValueError:
            refused = True
        edzed.reset_circuit()
        return {'hdr': hdr, 'ev': [{'ev': 'construct0', 'refused': refused}]}
    storage = None
    if restored is not None:
        storage = {"<Counter 'cnt'>": _num(restored, scale)}
    log = []

    def build(circuit):
        modulo = None if mod == NOMOD else _num(mod, scale)
        return edzed.Counter('cnt', modulo=modulo, initdef=_num(init, scale),
                             persistent=restored is not None)

    async def script(circuit, cnt, loop, clock):
        def obs(ev, a, ok, ret):
            big = {}
            if ev.endswith('_big'):
                x, ds = abs(a), []
                while x:
                    ds.append(x % 32768)
                    x //= 32768
                big = {'digits': ds[::-1] or [0], 'neg': a < 0}
                a = 0
            out = _unscale(cnt.output, scale) if cnt.output is not edzed.UNDEF else None
            r = _unscale(ret, scale) if ok else 0
            rec = {'ev': ev, 'a': a, 'ok': ok, 'ret': r, 'out': out,
                   'cerr': circuit.error is not None, **big}
            if out is None or r is None or isinstance(out, bool) or abs(out) >= 2 ** 31 or abs(r) >= 2 ** 31:
                rec['ev'] = 'bad_' + ev       # non-numeric / non-integral result: no action matches
                rec['out'] = rec['ret'] = 0
            log.append(rec)
        obs('start', 0, False, 0)
        for ev, a in stim['events']:
            etype, kw = ev, {}
            if ev in ('inc', 'dec'):
                kw = {'amount': _num(a, scale)}
            elif ev == 'put':
                kw = {'value': _num(a, scale)}
            elif ev in ('inc_big', 'dec_big'):
                etype, kw = ev[:3], {'amount': a}
            elif ev == 'put_big':
                etype, kw = 'put', {'value': a}
            elif ev in ('inc1', 'dec1'):
                etype = ev[:-1]
                a = scale           # default amount 1
            elif ev == 'putmissing':
                etype = 'put'
            elif ev == 'resetv':
                etype, kw, a = 'reset', {'value': _num(a, scale), 'previous': 0, 'trigger': 'output'}, 0
            try:
                ret = edzed.ExtEvent(cnt, etype).send(**kw)
                ok = True
            except (TypeError, edzed.EdzedError) as err:
                ret, ok = 0, False
                if not isinstance(err, TypeError) or ev != 'putmissing':
                    ev = 'failed_' + ev
            await rt.settle(1)
            obs({'inc1': 'inc', 'dec1': 'dec', 'resetv': 'reset'}.get(ev, ev), a, ok, ret)
        await rt.settle(2)
        log[-1]['cerr'] = circuit.error is not None
    rt.run_circuit(build, script, storage=storage)
    return {'hdr': hdr, 'ev': log}


def nontrivial(stim, trace):
    mod = stim['mod']
    if mod == 0:
        return False
    prev = None
    for e in trace['ev']:
        if e['ev'].endswith('_big'):
            return True
        if e['ev'] in ('inc', 'dec', 'put') and prev is not None:
            raw = {'inc': prev + e['a'], 'dec': prev - e['a'], 'put': e['a']}[e['ev']]
            if mod != NOMOD and not 0 <= raw < mod:
                return True
            if mod == NOMOD and (raw < 0) != (prev < 0):
                return True
        prev = e['out']
    return False


def signature(stim, trace, why):
    if 'invariant' in why:
        return f"inv:{why['invariant']}"
    e = why.get('event') or {}
    return f"reject:{e.get('ev')}:mod={'none' if stim['mod'] == NOMOD else 'set'}"
