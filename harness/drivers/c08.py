"""C08 - every started block is stopped exactly once and nothing outlives the simulation."""
from __future__ import annotations

import random

from .. import lifecommon

PROP = 'C08'
TRACE_SPEC = 'LifecycleTrace'
RULE = ('stimulus = (composition of 1..5 blocks from plain / Timer / Repeat / OutputAsync / ValuePoll / '
        'InitAsync / slow asynchronous clean-up / FuncBlock / control-event trigger, one fault site '
        '(start, init_regular, handler, calc_output, main task, stop, stop_async, init_async), API '
        'run() or run_forever(), termination cause (shutdown(), supporting task returning or failing, '
        "SIGTERM, 'shutdown' / 'abort' control event from outside or from inside the simulation task, "
        'abort(), abort before start) at an instant / loop step); distinct = SHA-1 of canonical JSON; '
        'non-trivial = a block with asynchronous clean-up or a block that was never started')
SHARDS = {'quick': 4, 'thorough': 8}
execute = lifecommon.execute


def models(tier, seed):
    ms = [dict(name='MC_Lifecycle 2 blocks', spec='MC_Lifecycle', cfg='MC_Lifecycle.cfg'),
          dict(name='MC_Lifecycle init tasks not cancelled on exit (sharpness)', spec='MC_Lifecycle',
               cfg='MC_Lifecycle_leak.cfg', expect_violation='NothingLeft')]
    if tier == 'thorough':
        ms.append(dict(name='MC_Lifecycle 3 blocks', spec='MC_Lifecycle', cfg='MC_Lifecycle_3.cfg', timeout=3000))
    return ms


KINDS = ['plain', 'plain', 'pplain', 'timer', 'repeat', 'oa', 'of', 'vp', 'ia', 'slowstop', 'cb', 'trig']


def rand_blocks(rnd, n=None, fault=True):
    n = n or rnd.randint(1, 5)
    blocks = []
    for _ in range(n):
        k = rnd.choice(KINDS)
        conf = {'kind': k}
        if k == 'oa':
            conf.update(mode=rnd.choice('wcs'), dur=rnd.choice([0, 1, 3]), sd=rnd.random() < 0.5)
        elif k == 'of':
            conf.update(sd=rnd.random() < 0.6)
        elif k == 'pplain':
            conf.update(sync=rnd.random() < 0.7,     # (persistent: its state is saved before the clean-up)
                        readerr=rnd.random() < 0.3)  # (its saved record cannot be read)
        elif k == 'vp':
            conf.update(idur=rnd.choice([0, 2, 6]), itmo=rnd.choice([4, 8]))
        elif k == 'ia':
            conf.update(idur=rnd.choice([2, 4, 6, 30]), itmo=rnd.choice([4, 8, 12]))
        elif k == 'slowstop':
            conf.update(slowstop=rnd.choice([0, 2, 4, 60]), tmo=rnd.choice([8, 12]),
                        busytail=rnd.choice([0, 0, 2, 3]), cl=rnd.choice([0, 0, 2]))
        elif k == 'repeat' and rnd.random() < 0.25:
            conf.update(tmo=0)          # stop_timeout=0: the asynchronous clean-up is disabled
        elif k == 'trig':
            conf.update(ctrl=rnd.choice(['shutdown', 'abort']), ctor=rnd.random() < 0.5)
            if not conf['ctor'] and rnd.random() < 0.3:
                conf['atinit'] = True
        elif k == 'cb':
            conf.update(trigger=666)
            if rnd.random() < 0.3:
                conf.update(ctrl=rnd.choice(['shutdown', 'abort']))
        blocks.append(conf)
    if fault and rnd.random() < 0.6:
        b = rnd.randrange(n)
        k = blocks[b]['kind']
        opts = ['start', 'stop']
        if k in ('plain', 'pplain', 'trig'):
            opts += ['init_regular', 'init_regular_once', 'handler', 'handler']
        if k == 'cb':
            opts = ['eval']
        if k == 'vp':
            opts += ['main']
        if k == 'ia':
            opts += ['init_async']
        if k in ('oa', 'repeat', 'vp', 'ia', 'slowstop'):
            opts += ['stop_async', 'start_base']
        blocks[b]['fault'] = rnd.choice(opts)
    return blocks


def rand_cause(rnd, blocks, api):
    t = rnd.choice([0, 0, 1, 3, 5, 9, 14])
    yields = rnd.choice([0, 0, 1, 2, 3])
    causes = ['shutdown', 'abort', 'none']
    if api == 'run':
        causes += ['support_return', 'support_fail', 'sigterm']
    trig = [i for i, b in enumerate(blocks, 1) if b['kind'] == 'trig' or (b['kind'] == 'cb' and b.get('ctrl'))]
    if trig:
        causes += ['ctrl', 'ctrl']
    c = rnd.choice(causes)
    op = {'t': t, 'yields': yields}
    if c == 'shutdown':
        op['op'] = 'shutdown'
    elif c == 'abort':
        op.update(op='abort', code=901)
    elif c == 'support_return':
        op['op'] = 'support_return'
    elif c == 'support_fail':
        op.update(op='support_fail', code=902)
    elif c == 'sigterm':
        op['op'] = rnd.choice(['sigterm', 'sigterm_idle'])
    elif c == 'ctrl':
        op.update(op='hit', dest=rnd.choice(trig), value=7)
    else:
        return None
    return op


def rand_stim(rnd, check):
    api = rnd.choice(['run', 'forever'])
    blocks = rand_blocks(rnd)
    r = rnd.random()
    if r < 0.1:
        # several clean-up routines hang: the whole clean-up is bounded by the largest stop_timeout
        blocks = blocks[:2] + [{'kind': 'slowstop', 'slowstop': 60, 'tmo': t, 'cl': rnd.choice([0, 1, 2])}
                               for t in rnd.sample([4, 6, 8, 12], rnd.randint(2, 3))]
    elif r < 0.2:
        # a timer becomes due while a clean-up routine blocks the loop
        blocks = blocks[:2] + [{'kind': 'timer'}, {'kind': 'slowstop', 'slowstop': rnd.choice([1, 2, 3]), 'tmo': 12,
                                                    'busytail': rnd.choice([2, 3])}]
        rnd.shuffle(blocks)
    actions = []
    # some activity: external events to plain blocks, triggers of handler / eval faults
    for i, b in enumerate(blocks, 1):
        if b['kind'] in ('plain', 'pplain', 'slowstop') and b.get('fault') != 'init_regular' and rnd.random() < 0.5:
            actions.append({'t': rnd.choice([0, 1, 5, 10]), 'yields': rnd.randint(0, 3), 'op': 'ext', 'dest': i,
                            'shape': {'value': rnd.randint(1, 5)}})
        if b.get('fault') in ('handler', 'eval'):
            actions.append({'t': rnd.choice([0, 2, 5, 10]), 'yields': rnd.randint(0, 3), 'op': 'hit', 'dest': i})
        if b['kind'] in ('oa', 'of') and rnd.random() < 0.6:
            actions.append({'t': rnd.choice([5, 9, 10]), 'yields': 0, 'op': 'hit', 'dest': i, 'value': 3})
    cause = rand_cause(rnd, blocks, api)
    if cause:
        actions.append(cause)
    actions.sort(key=lambda a: (a['t'], a.get('yields', 0)))
    # nothing after a supporting task ended
    for k, a in enumerate(actions):
        if a['op'] in ('support_return', 'support_fail'):
            actions = actions[:k + 1]
            break
    return {'check': check, 'api': api, 'blocks': blocks, 'actions': actions,
            'pre_abort': rnd.random() < 0.04, 'linger': rnd.choice([4, 20, 40]),
            'slowcancel': api == 'run' and rnd.random() < 0.4}


def stimuli(tier, seed, ctx):
    rnd = random.Random(seed)
    return [rand_stim(rnd, 'C08') for _ in range(900 if tier == 'quick' else 15000)]


def nontrivial(stim, trace):
    hdr = trace['hdr']['blocks']
    started = {e['b'] for e in trace['ev'] if e['ev'] == 'start' and e['ok']}
    return any(b['async'] for b in hdr) or len(started) < sum(1 for b in stim['blocks'] if b['kind'] != 'cb')


def signature(stim, trace, why):
    e = why.get('event') or {}
    detail = ''
    if e.get('ev') == 'after':
        import re
        names = ','.join(sorted({re.sub(r'Task-\d+', 'Task-N', n.split(' for ')[0]) for n in e.get('names', [])}))
        detail = f":tasks={min(e.get('tasks', 0), 1)}:timers={min(e.get('timers', 0), 1)}:{names}"
    elif e.get('ev') in ('stop', 'sa_begin', 'sa_end', 'start'):
        detail = ':' + stim['blocks'][e['b'] - 1]['kind']
    elif e.get('ev') == 'ext':
        detail = f":{e.get('outcome')}:deliv={e.get('deliv')}"
    return f"reject:{e.get('ev')}{detail}"
