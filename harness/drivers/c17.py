"""C17 - an Input never outputs a value that its validators reject."""
from __future__ import annotations

import itertools
import random

from .. import rt

PROP = 'C17'
TRACE_SPEC = 'InputTrace'
RULE = ('stimulus = (kind, validator tables over a value domain of 3..6 values, initdef, restored '
        'value, expired value, put sequence); distinct = SHA-1 of canonical JSON; non-trivial = '
        'the sequence contains at least one accepted and one rejected put')
KMAX = 8
# concrete Python values for the abstract ids 1..6 (pairwise unequal, hashable)
# ids 1..6 are pairwise unequal; id 7 (10.0) equals id 2 (10) and id 8 (False) equals id 6 (0) while
# being values of another type: 'allowed' cannot tell them apart (membership is equality), 'check'
# and 'schema' can and do
VALS = ['<unused>', None, 10, 'b', 2.5, ('t', 1), 0, 10.0, False]     # id 1 is None: the default 'expired' value
TWINS = {7: 2, 8: 6}
TRUTHY = [True, 1, 'yes', [0]]
FALSY = [False, 0, '', None, []]


def models(tier, seed):
    return [dict(name='MC_Input', spec='MC_Input', cfg='MC_Input.cfg', coverage=True)]


def _pad(lst, fill):
    return list(lst) + [fill] * (KMAX - len(lst))


def _cfg(kind, k, hasA, allowed, hasC, check, hasS, schema, initdef, rest, expired):
    return {'kind': kind, 'k': k, 'hasA': hasA, 'allowed': _pad(allowed, False),
            'hasC': hasC, 'check': _pad(check, False), 'hasS': hasS, 'schema': _pad(schema, 0),
            'initdef': initdef, 'rest': rest, 'expired': expired}


def _random_cfg(rnd, k):
    kind = rnd.choice(['input', 'input', 'exp'])
    hasA, hasC, hasS = (rnd.random() < 0.6 for _ in range(3))
    p = rnd.choice([0.3, 0.6, 0.9])
    allowed = [rnd.random() < p for _ in range(k)] if hasA else [True] * k
    check = [rnd.random() < p for _ in range(k)] if hasC else [True] * k
    schema = [rnd.choice([0] + list(range(1, k + 1)) * 2) for _ in range(k)] if hasS \
        else list(range(1, k + 1))
    initdef = rnd.randint(0, k)
    rest = rnd.randint(0, k) if kind == 'input' and rnd.random() < 0.5 else 0
    expired = rnd.choice([1, 1] + list(range(1, k + 1))) if kind == 'exp' else 1
    cfg = _cfg(kind, k, hasA, allowed, hasC, check, hasS, schema, initdef, rest, expired)
    # the expired value None may also be left to the default of the argument
    cfg['expdef'] = bool(kind == 'exp' and expired == 1 and rnd.random() < 0.7)
    # the output event of an Input fails with a ValueError of its own whenever the output becomes
    # this value: that is an error of the simulation, not a rejected put
    cfg['outfail'] = rnd.randint(1, k) if kind == 'input' and rnd.random() < 0.2 else 0
    cfg['outfail'] = TWINS.get(cfg['outfail'], cfg['outfail'])
    cfg['canon'] = [TWINS.get(v, v) for v in range(1, KMAX + 1)]
    return cfg


def stimuli(tier, seed, ctx):
    rnd = random.Random(seed)
    out = []
    n = 700 if tier == 'quick' else 12000
    for i in range(n):
        k = 3 if i % 2 == 0 else rnd.randint(4, KMAX)
        cfg = _random_cfg(rnd, k)
        for tw, orig in TWINS.items():
            if tw <= k:
                cfg['allowed'][tw - 1] = cfg['allowed'][orig - 1]
        ln = rnd.randint(1, 6) if rnd.random() < 0.7 else rnd.randint(7, 14)
        puts = [[rnd.randint(1, k), cfg['kind'] == 'exp' and rnd.random() < 0.3] for _ in range(ln)]
        out.append({'cfg': cfg, 'puts': puts})
    # all put sequences up to length 3 over 3 values for a stride sample of the table space
    if tier == 'thorough':
        for _ in range(300):
            cfg = _random_cfg(rnd, 3)
            for ln in (2, 3):
                for seq in itertools.product([1, 2, 3], repeat=ln):
                    out.append({'cfg': cfg, 'puts': [[v, False] for v in seq]})
    return out


def _cid(x):
    """id of the equality class (what an output is compared by)"""
    v = _vid(x)
    return TWINS.get(v, v)


def _vid(x):
    for i in range(1, len(VALS)):
        if type(VALS[i]) is type(x) and VALS[i] == x:
            return i
    return -1


def execute(stim):
    import edzed
    cfg = stim['cfg']
    rnd = random.Random(repr(cfg))
    k = cfg['k']
    kw = {}
    if cfg['hasA']:
        kw['allowed'] = [VALS[v] for v in range(1, k + 1) if cfg['allowed'][v - 1]]
    if cfg['hasC']:
        ctab = {v: (rnd.choice(TRUTHY) if cfg['check'][v - 1] else rnd.choice(FALSY))
                for v in range(1, k + 1)}
        kw['check'] = lambda x: ctab[_vid(x)]
    if cfg['hasS']:
        def schema(x):
            img = cfg['schema'][_vid(x) - 1]
            if img == 0:
                raise rnd.choice([ValueError, KeyError, TypeError, ZeroDivisionError])('schema')
            return VALS[img]
        kw['schema'] = schema
    if cfg['initdef']:
        kw['initdef'] = VALS[cfg['initdef']]
    expkw = {} if cfg.get('expdef') else {'expired': VALS[cfg['expired']]}
    storage = None
    if cfg['kind'] == 'input' and cfg['rest']:
        storage = {"<Input 'inp'>": VALS[cfg['rest']]}
        kw['persistent'] = True
    log = []
    edzed.reset_circuit()
    try:
        if cfg['kind'] == 'input':
            edzed.Input('inp', **kw)
        else:
            edzed.InputExp('inp', duration='1h', **expkw, **kw)
        refused = False
    except Exception:       # the creation is refused, whatever exception type reports it
        refused = True
    edzed.reset_circuit()
    if refused:
        return {'hdr': cfg, 'ev': [{'ev': 'construct', 'refused': True, 'out': 0}]}

    def build(circuit):
        if cfg.get('outfail'):
            def picky(data):
                if _cid(data['value']) == cfg['outfail']:
                    raise ValueError('scripted failure of an output event filter')
                return True
            sink = edzed.Input('sink', initdef=None)
            kw['on_output'] = edzed.Event(sink, 'put', efilter=[edzed.not_from_undef, picky])
        if cfg['kind'] == 'input':
            blk = edzed.Input('inp', **kw)
        else:
            blk = edzed.InputExp('inp', duration='1h', **expkw, **kw)
        edzed.Not('keepalive').connect(blk)
        return blk

    def oid(blk):
        return 0 if blk.output is edzed.UNDEF else _cid(blk.output)

    async def script(circuit, blk, loop, clock):
        log.append({'ev': 'construct', 'refused': False, 'out': oid(blk)})
        if circuit.error is not None:
            return
        for v, x in stim['puts']:
            data = {'duration': 0} if x else {}
            try:
                ret = edzed.ExtEvent(blk).send(VALS[v], **data)
            except Exception as err:   # a validator's exception must never reach the sender of the event
                ret = 'exc'
                if cfg.get('outfail'):
                    await rt.settle(1)
                    log.append({'ev': 'put_raise', 'v': v, 'x': bool(x), 'out': oid(blk),
                                'exc': 'circuit' if isinstance(err, edzed.EdzedCircuitError) else 'other',
                                'cerr': circuit.error is not None})
                    return
            await rt.settle(1)
            log.append({'ev': 'put' if isinstance(ret, bool) else 'put_badret', 'v': v, 'x': bool(x),
                        'ret': ret if isinstance(ret, bool) else False, 'out': oid(blk),
                        'cerr': circuit.error is not None})
    rt.run_circuit(build, script, storage=storage)
    return {'hdr': cfg, 'ev': log}


def nontrivial(stim, trace):
    rets = {e['ret'] for e in trace['ev'] if e['ev'] == 'put'}
    return rets == {True, False}


def signature(stim, trace, why):
    if 'invariant' in why:
        return f"inv:{why['invariant']}:{stim['cfg']['kind']}"
    e = why.get('event') or {}
    return f"reject:{e.get('ev')}:{stim['cfg']['kind']}"
