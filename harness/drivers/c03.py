"""C03 - an FSM follows its transition table and runs its actions in the documented order."""
from __future__ import annotations

import random

from .. import rt

PROP = 'C03'
TRACE_SPEC = 'FsmTrace'
RULE = ('stimulus = (FSM definition: table with specific / any-state / None rules, presence of '
        'cond/enter/exit methods and instance callbacks, chained-entry script, observers) + event '
        'sequence (table events with data flags, Goto, unknown); distinct = SHA-1 of canonical JSON; '
        'non-trivial = the sequence has at least one accepted and one rejected event')
SHARDS = {'quick': 6, 'thorough': 8}


def models(tier, seed):
    ms = [dict(name='MC_Fsm tables', spec='MC_Fsm', cfg='MC_Fsm.cfg'),
          dict(name='MC_Fsm stale-data deviation (sharpness)', spec='MC_Fsm', cfg='MC_Fsm_stale.cfg',
               expect_violation='DataOfCausingEvent')]
    if tier == 'thorough':
        ms.append(dict(name='MC_Fsm chains', spec='MC_Fsm', cfg='MC_Fsm_chains.cfg', timeout=1800))
    else:
        ms.append(dict(name='MC_Fsm few chains', spec='MC_Fsm', cfg='MC_Fsm_few.cfg'))
    return ms


NOCHAIN = {'on': False, 'goto': 0, 'e': 1, 'tag': 0, 'prop': 0, 'double': False, 'always': False, 'cnd': 1}


def _rand_cfg(rnd, n, m, chains=True, xprob=0.12):
    def tgt(p_abs):
        r = rnd.random()
        if r < p_abs:
            return -1
        if r < p_abs + 0.12:
            return 0
        return rnd.randint(1, n)
    trans = [[tgt(0.45) for _ in range(n)] for _ in range(m)]
    any_ = [tgt(0.5) for _ in range(m)]
    cb = lambda: rnd.choice([0, 0, 1, 2, 3])
    enter = [cb() for _ in range(n)]
    known = [e for e in range(1, m + 1) if any_[e - 1] != -1 or any(t != -1 for t in trans[e - 1])]
    chain = []
    for s in range(n):
        if chains and enter[s] and rnd.random() < 0.45 and known:
            # (an unknown event requested from an entry action is outside the property)
            chain.append({'on': True, 'goto': rnd.choice([0, 0, rnd.randint(1, n)]),
                          'e': rnd.choice(known), 'tag': rnd.randint(6, 9), 'prop': rnd.randint(0, 1),
                          'double': rnd.random() < 0.12,
                          # 'always': requested whatever the data says - also while the FSM is being
                          # initialised, when conditions are not consulted yet
                          'always': rnd.random() < 0.15, 'cnd': int(rnd.random() < 0.7)})
        else:
            chain.append(dict(NOCHAIN))
    return {'n': n, 'm': m, 'trans': trans, 'any': any_,
            'cond': [cb() for _ in range(m)], 'enter': enter, 'exit': [cb() for _ in range(n)],
            'on_enter': [rnd.random() < .6 for _ in range(n)],
            'on_exit': [rnd.random() < .6 for _ in range(n)],
            'on_notrans': rnd.random() < .7, 'on_output': rnd.random() < .7, 'chain': chain,
            'xchain': [rnd.random() < xprob for _ in range(n)],
            # hold states: calc_output() returns UNDEF = "leave the output unchanged" (never the
            # initial state s1, and not together with requests made during the initialisation:
            # an FSM without an output does not start)
            # the on_enter event of the state fails non-fatally (never of the initial state)
            'nbad': [s > 0 and rnd.random() < 0.15 and not any(c.get('always') for c in chain)
                     for s in range(n)],
            'hold': [s > 0 and rnd.random() < 0.25 and not any(c.get('always') for c in chain)
                     for s in range(n)]}


def _rand_seq(rnd, cfg, ln):
    seq = []
    for _ in range(ln):
        r = rnd.random()
        d = {'tag': rnd.randint(1, 5), 'chain': int(rnd.random() < .6),
             'cond': int(rnd.random() < .75), 'condf': int(rnd.random() < .8),
             'xc': int(rnd.random() < .3)}
        if r < 0.12:
            seq.append({'goto': rnd.randint(1, cfg['n']), 'e': 0, 'd': d})
        elif r < 0.2:
            seq.append({'goto': 0, 'e': 0, 'd': d})
        else:
            seq.append({'goto': 0, 'e': rnd.randint(1, cfg['m']), 'd': d})
    return seq


def stimuli(tier, seed, ctx):
    rnd = random.Random(seed)
    out = []
    # (i) all 2x2 tables (specific / any / None / missing), fixed callbacks, no chains
    T = [-1, 0, 1, 2]
    k = 0
    for a in T:
        for b in T:
            for c in T:
                for d in T:
                    for x in T:
                        for y in T:
                            k += 1
                            if tier == 'quick' and k % 6 != seed % 6:
                                continue
                            cfg = {'n': 2, 'm': 2, 'trans': [[a, b], [c, d]], 'any': [x, y],
                                   'cond': [3, 1], 'enter': [3, 1], 'exit': [1, 3],
                                   'on_enter': [True, True], 'on_exit': [True, True],
                                   'on_notrans': True, 'on_output': True,
                                   'chain': [dict(NOCHAIN), dict(NOCHAIN)], 'xchain': [False, k % 5 == 0],
                                   'hold': [False, k % 4 == 1], 'nbad': [False, k % 7 == 2]}
                            out.append({'cfg': cfg, 'seq': _rand_seq(rnd, cfg, 8)})
    # (ii) random machines with chains
    for _ in range(600 if tier == 'quick' else 15000):
        n = rnd.choice([1, 2, 2, 3, 3, 4, 5])
        m = rnd.choice([1, 2, 2, 3])
        cfg = _rand_cfg(rnd, n, m)
        out.append({'cfg': cfg, 'seq': _rand_seq(rnd, cfg, rnd.randint(2, 12))})
    return out


def _sid(name):
    import edzed
    if name is edzed.UNDEF:
        return 0
    if isinstance(name, str) and name[:1] in 'se' and name[1:].isdigit():
        return int(name[1:])
    return -9999


def execute(stim):
    import edzed
    cfg = stim['cfg']
    n, m = cfg['n'], cfg['m']
    log = []
    holder = {}

    def rec(k, nn=0, f=0, tag=0, a=0, b=0):
        log.append({'k': k, 'n': nn, 'f': f, 'tag': tag, 'a': a, 'b': b})

    def seen():
        d = edzed.fsm_event_data.get()
        try:
            d['_hack'] = 1
            rec('mutable')          # the data must be read-only
        except TypeError:
            pass
        return d

    def request(s):
        ch = cfg['chain'][s - 1]
        if not ch['on'] or not (ch['always'] or seen().get('chain', 0)):
            return False
        fsm = holder['fsm']
        et = edzed.Goto(f's{ch["goto"]}') if ch['goto'] else f'e{ch["e"]}'
        for _ in range(2 if ch['double'] else 1):
            fsm.event(et, tag=ch['tag'], chain=ch['prop'], cond=ch['cnd'], condf=ch['cnd'], xc=seen().get('xc', 0))
        return True

    def mk_cond(e, f):
        def cond(*_self):
            d = seen()
            rec('cond', e, f, d.get('tag', 0))
            return d.get('condf' if f else 'cond', 1)
        return cond

    def mk_enter(s, f, do_request):
        def enter(*_self):
            rec('enter', s, f, seen().get('tag', 0))
            if do_request and request(s):
                # event() returned: this action must still see the data of its own event
                rec('after', s, f, seen().get('tag', 0))
        return enter

    def mk_exit(s, f):
        def exit_(*_self):
            d = seen()
            rec('exit', s, f, d.get('tag', 0))
            if cfg['xchain'][s - 1] and d.get('xc', 0):
                # an exit action is not a permitted window: this must be refused (fatal)
                holder['fsm'].event(edzed.Goto('s1'), tag=99)
        return exit_

    events = []
    for e in range(1, m + 1):
        for s in range(1, n + 1):
            t = cfg['trans'][e - 1][s - 1]
            if t != -1:
                events.append((f'e{e}', [f's{s}'], f's{t}' if t else None))
        t = cfg['any'][e - 1]
        if t != -1:
            events.append((f'e{e}', None, f's{t}' if t else None))
    ns = {'STATES': [f's{s}' for s in range(1, n + 1)], 'EVENTS': events}
    cfg.setdefault('hold', [False] * n)
    cfg.setdefault('nbad', [False] * n)
    hold = cfg['hold']
    if any(hold):
        def calc_output(self):
            st_ = self.state
            return edzed.UNDEF if hold[int(st_[1:]) - 1] else st_
        ns['calc_output'] = calc_output
    inst = {}
    known = {ev[0] for ev in events}
    for e in range(1, m + 1):
        has = cfg['cond'][e - 1] if f'e{e}' in known else 0   # no callbacks for unknown events
        if has in (1, 3):
            ns[f'cond_e{e}'] = mk_cond(e, 0)
        if has in (2, 3):
            inst[f'cond_e{e}'] = mk_cond(e, 1)
    for s in range(1, n + 1):
        has = cfg['enter'][s - 1]
        if has in (1, 3):
            ns[f'enter_s{s}'] = mk_enter(s, 0, True)
        if has in (2, 3):
            inst[f'enter_s{s}'] = mk_enter(s, 1, has == 2)
        has = cfg['exit'][s - 1]
        if has in (1, 3):
            ns[f'exit_s{s}'] = mk_exit(s, 0)
        if has in (2, 3):
            inst[f'exit_s{s}'] = mk_exit(s, 1)

    class Probe(edzed.SBlock):
        def init_regular(self):
            self.set_output(None)

        def _event(self, etype, data):
            if etype == 'notrans':
                rec('notrans', _sid(data.get('event')), 0, 0, _sid(data.get('state')))
            elif etype == 'out':
                rec('out', 0, 0, 0, _sid(data.get('previous')), _sid(data.get('value')))
            elif etype == 'bogus':
                rec('on_enter', _sid(data.get('state')), 0, 0, _sid(data.get('value')))
                raise edzed.EdzedUnknownEvent('bogus: not an event of this block')
            else:
                ok = data.get('trigger') == etype[3:] and data.get('source') == 'fsm'
                rec(etype if ok else etype + '_baddata', _sid(data.get('state')), 0, 0,
                    _sid(data.get('value')))

    # every third definition runs as a persistent block (chosen by the content: no extra stimulus field)
    persist = sum(len(repr(x)) for x in stim['seq']) % 3 == 0

    def build(circuit):
        Probe('probe')
        cls = type('GenFSM', (edzed.FSM,), ns)
        kw = dict(inst)
        for s in range(1, n + 1):
            if cfg['on_enter'][s - 1]:
                kw[f'on_enter_s{s}'] = edzed.Event('probe', 'bogus' if cfg['nbad'][s - 1] else 'on_enter')
            if cfg['on_exit'][s - 1]:
                kw[f'on_exit_s{s}'] = edzed.Event('probe', 'on_exit')
        if cfg['on_notrans']:
            kw['on_notrans'] = edzed.Event('probe', 'notrans')
        if cfg['on_output']:
            kw['on_output'] = edzed.Event('probe', 'out')
        if persist:
            kw['persistent'] = True     # (another layer between the caller and the FSM's handler)
        fsm = cls('fsm', **kw)
        holder['fsm'] = fsm
        edzed.Not('keepalive').connect(fsm)
        return fsm

    lines = []

    def norm(lg):
        """the order of an instance function and a method of one action is unspecified"""
        lg = list(lg)
        i = 0
        while i < len(lg) - 1:
            a, b = lg[i], lg[i + 1]
            if (a['k'] == b['k'] and a['k'] in ('cond', 'enter', 'exit') and a['n'] == b['n']
                    and a['f'] != b['f'] and a['tag'] == b['tag']):
                if a['f'] == 0:         # canonical: the instance function first
                    lg[i], lg[i + 1] = b, a
                i += 2                  # the two callbacks of ONE action form a pair
            else:
                i += 1
        return lg

    async def script(circuit, fsm, loop, clock):
        d0 = {'tag': 0, 'chain': 0, 'cond': 1, 'condf': 1, 'xc': 0}
        lines.append({'ev': 'event', 'goto': 1, 'e': 0, 'd': d0,
                      'ret': 'true' if circuit.error is None else 'error', 'st': _sid(fsm.state),
                      'out': _sid(fsm.output), 'log': norm(log), 'cerr': circuit.error is not None})
        if circuit.error is not None:
            return
        for ev in stim['seq']:
            del log[:]
            try:
                if ev['goto']:
                    ret = fsm.event(edzed.Goto(f's{ev["goto"]}'), **ev['d'])
                else:
                    ret = edzed.ExtEvent(fsm, f'e{ev["e"]}' if ev['e'] else 'zz').send(**ev['d'])
                ret = {True: 'true', False: 'false'}.get(ret, 'badret') if isinstance(ret, bool) else 'badret'
            except edzed.EdzedUnknownEvent:
                ret = 'unknown'
            except edzed.EdzedCircuitError:
                ret = 'error'
            await rt.settle(2)
            lines.append({'ev': 'event', 'goto': ev['goto'], 'e': ev['e'], 'd': ev['d'], 'ret': ret,
                          'st': _sid(fsm.state), 'out': _sid(fsm.output), 'log': norm(log),
                          'cerr': circuit.error is not None})
            if circuit.error is not None:
                return

    rt.run_circuit(build, script, storage={} if persist else None)
    return {'hdr': cfg, 'ev': lines}


def nontrivial(stim, trace):
    rets = {e['ret'] for e in trace['ev']}
    return 'true' in rets and ('false' in rets or 'unknown' in rets)


def signature(stim, trace, why):
    e = why.get('event') or {}
    chained = any(c['on'] for c in stim['cfg']['chain'])
    detail = ''
    st = why.get('spec_state_before')
    if e and e.get('ret') != 'error':
        tags = sorted({r['tag'] for r in e.get('log', []) if r['k'] in ('enter', 'exit')})
        detail = ':multi-tag' if len(tags) > 1 else ''
    return f"reject:ret={e.get('ret')}:chained={chained}{detail}"
