"""C02 - output events reproduce the source block's output history exactly."""
from __future__ import annotations

import itertools
import random

from .. import rt

PROP = 'C02'
TRACE_SPEC = 'OutEventsTrace'
RULE = ('stimulus = (sender kind, on_output / on_every_output event lists with filters, assignment '
        'history over 12 objects in 7 equality classes); distinct = SHA-1 of canonical JSON; '
        'non-trivial = history has an unchanged assignment of an equal-but-not-identical object')
UNDEF = -1000
FILTER_MENU = [
    [], [], [{'k': 'nfu'}], [{'k': 'const', 'r': 'false'}],
    [{'k': 'edit', 'ops': [{'k': 'add', 'kv': [['x', 5]]}]}],
    [{'k': 'edit', 'ops': [{'k': 'add', 'kv': [['x', 5]]}]}, {'k': 'nfu'}],
    [{'k': 'const', 'r': 'truthy'}, {'k': 'edit', 'ops': [{'k': 'delete', 'keys': ['source']}]}],
    [{'k': 'edit', 'ops': [{'k': 'copy', 'src': 'value', 'dst': 'previous'}]}],
    # mutable mappings that are not dicts
    [{'k': 'edit', 'ops': [{'k': 'add', 'kv': [['x', 5]]}, {'k': 'delete', 'keys': ['previous']}], 'wrap': 'userdict'}],
    [{'k': 'edit', 'ops': [{'k': 'delete', 'keys': ['source', 'trigger']}], 'wrap': 'chainmap'}, {'k': 'nfu'}],
    # a filter may hand on an EMPTY mapping: still an accepted event (with no data items)
    [{'k': 'edit', 'ops': [{'k': 'permit', 'keys': []}]}],
    [{'k': 'edit', 'ops': [{'k': 'permit', 'keys': []}]}, {'k': 'edit', 'ops': [{'k': 'add', 'kv': [['x', 5]]}]}],
]


def make_objs():
    return [0, 1, True, 1.0, None, (), tuple([1]), tuple([1]), 2, 2.0,
            ''.join(['a', 'b']), ''.join(['a', 'b']), float('nan')]


def classes(objs):
    cls = []
    for i, o in enumerate(objs):
        for j in range(i):
            if objs[j] == o:
                cls.append(cls[j])
                break
        else:
            cls.append(i + 1)
    return cls


def models(tier, seed):
    return [dict(name='MC_OutEvents', spec='MC_OutEvents', cfg='MC_OutEvents.cfg')]


def _rand_events(rnd, n):
    evs = [{'dest': rnd.randint(1, 3), 'etype': rnd.choice(['e1', 'e2', 'put']),
            'filters': rnd.choice(FILTER_MENU), 'form': rnd.choice(['single', 'list', 'tuple'])}
           for _ in range(n)]
    for i in range(1, n):
        if rnd.random() < 0.2:
            # the very same Event object listed once more: sent once more
            evs[i] = dict(evs[rnd.randrange(i)], same=True)
    return evs


def stimuli(tier, seed, ctx):
    rnd = random.Random(seed)
    nobj = len(make_objs())
    out = []
    for _ in range(700 if tier == 'quick' else 12000):
        # a = a sequential block with the async-init add-on, f = an FSM
        # k = a persistent Counter starting from its saved state
        kind = rnd.choice(['s', 'i', 'c', 'a', 'f', 'k'])
        hist = [rnd.randint(1, nobj) for _ in range(rnd.randint(1, 12))]
        if kind == 'k':
            hist = [rnd.choice([1, 2, 9]) for _ in hist]        # (the integers 0, 1, 2)
        out.append({'kind': kind, 'on_output': _rand_events(rnd, rnd.randint(0, 3)),
                    'on_every': _rand_events(rnd, rnd.randint(0, 3)) if kind != 'c' else [],
                    'hist': hist, 'fdest': rnd.random() < 0.3,
                    # assignments made after the stop was requested (before the clean-up runs)
                    'late': [rnd.randint(1, nobj) for _ in range(rnd.randint(1, 3))]
                            if kind != 'c' and rnd.random() < 0.3 else []})
    if tier == 'thorough':      # all histories <= 4 over one object per class + the equal twins
        ids = [1, 2, 3, 5, 7, 8]
        for kind in ('s', 'c'):
            for ln in (2, 3, 4):
                for hist in itertools.product(ids, repeat=ln):
                    out.append({'kind': kind,
                                'on_output': [{'dest': 1, 'etype': 'e1', 'filters': [], 'form': 'single'},
                                              {'dest': 2, 'etype': 'e2', 'filters': [{'k': 'nfu'}], 'form': 'list'}],
                                'on_every': [] if kind == 'c' else
                                [{'dest': 3, 'etype': 'e1', 'filters': [], 'form': 'tuple'}],
                                'hist': list(hist)})
    return out


def execute(stim):
    import edzed
    from .c16 import _mk_filter
    objs = make_objs()
    cls = classes(objs)
    got = []

    def tag(x):
        if x is edzed.UNDEF:
            return UNDEF
        # verdicts compare objects by equality class (the property speaks of values that
        # "compare unequal"); which of two equal objects is stored is implementation detail
        for i, o in enumerate(objs):
            if o is x:
                return cls[i]
        return -9999

    def code(key, v):
        if key in ('previous', 'value'):
            return tag(v)
        if key == 'source':
            return 800 if v == 'snd' else -9999
        if key == 'trigger':
            return 810 if v == 'output' else -9999
        return v if isinstance(v, int) and not isinstance(v, bool) else -9999

    class Dest(edzed.SBlock):
        def init_regular(self):
            self.set_output(None)

        def _event(self, etype, data):
            got.append({'dest': int(self.name[1:]), 'etype': etype,
                        'data': {k: code(k, v) for k, v in data.items()}})

    class Snd(edzed.SBlock):
        def init_regular(self):
            self.set_output(objs[stim['hist'][0] - 1])

        def _event_set(self, *, value, **_data):
            self.set_output(value)

    class SndA(edzed.AddonAsyncInit, Snd):
        """like ValuePoll: set_output() is overridden by the add-on"""

    class SndF(edzed.FSM):
        """an FSM: every accepted transition assigns the output, changed or not"""
        STATES = ['s']
        EVENTS = [('set', None, 's')]

        def enter_s(self):
            self.sdata['v'] = edzed.fsm_event_data.get().get('value', objs[stim['hist'][0] - 1])

        def calc_output(self):
            return self.sdata['v']

    class Aux(edzed.FSM):
        """a second FSM that handles an event in the middle of DestF's transition"""
        STATES = ['x']
        EVENTS = [('ping', None, 'x')]

    class DestF(edzed.FSM):
        """an FSM destination: its entry action reads the event data (fsm_event_data) after the
        exit events of the same transition were delivered to another FSM"""
        STATES = ['a']
        EVENTS = [('e1', None, 'a'), ('e2', None, 'a'), ('put', None, 'a')]

        def _event(self, etype, data):
            self._cur = etype
            return super()._event(etype, data)

        def enter_a(self):
            if isinstance(self._cur, str):      # (not the initialising Goto)
                data = edzed.fsm_event_data.get()
                got.append({'dest': int(self.name[1:]), 'etype': self._cur,
                            'data': {k: code(k, v) for k, v in data.items()}})

    def events(lst):
        evs, made = [], {}
        for e in lst:
            key = repr((e['dest'], e['etype'], e['filters']))
            if e.get('same') and key in made:
                evs.append(made[key])
                continue
            made[key] = edzed.Event(f'd{e["dest"]}', e['etype'],
                                    efilter=[_mk_filter(f, edzed) for f in e['filters']])
            evs.append(made[key])
        if not evs:
            return None
        form = lst[0]['form']
        if form == 'single' and len(evs) == 1:
            return evs[0]
        return tuple(evs) if form == 'tuple' else evs

    def build(circuit):
        for i in (1, 2, 3):
            if stim.get('fdest') and i == 3:
                Aux('aux')
                DestF('d3', on_exit_a=edzed.Event('aux', 'ping'))
            else:
                Dest(f'd{i}')
        kind = stim['kind']
        first = objs[stim['hist'][0] - 1]
        if kind == 's':
            snd = Snd('snd', on_output=events(stim['on_output']), on_every_output=events(stim['on_every']))
            target = snd
        elif kind == 'f':
            snd = SndF('snd', on_output=events(stim['on_output']), on_every_output=events(stim['on_every']))
            target = snd
        elif kind == 'k':
            snd = edzed.Counter('snd', persistent=True, on_output=events(stim['on_output']),
                                on_every_output=events(stim['on_every']))
            circuit.persistent_dict[snd.key] = first        # the saved state (the first output)
            target = snd
        elif kind == 'a':
            snd = SndA('snd', init_timeout=0, on_output=events(stim['on_output']),
                       on_every_output=events(stim['on_every']))
            target = snd
        elif kind == 'i':
            snd = edzed.Input('snd', initdef=first, on_output=events(stim['on_output']),
                              on_every_output=events(stim['on_every']))
            target = snd
        else:
            target = edzed.Input('inp', initdef=first)
            snd = edzed.FuncBlock('snd', func=lambda x: x, on_output=events(stim['on_output'])).connect(target)
        edzed.Not('keepalive').connect('d1')
        return snd, target

    log = []

    async def script(circuit, ctx, loop, clock):
        snd, target = ctx
        kind = stim['kind']
        await rt.settle(2)
        log.append({'ev': 'assign', 'v': cls[stim['hist'][0] - 1], 'deliv': list(got), 'out': tag(snd.output),
                    'late': 0})
        for v in stim['hist'][1:]:
            del got[:]
            etype = 'set' if kind in ('s', 'a', 'f') else 'put'
            try:
                edzed.ExtEvent(target, etype).send(objs[v - 1])
            except edzed.EdzedError:
                log.append({'ev': 'send_failed'})
                return
            if kind == 'c':
                await rt.settle(2)
            deliv = list(got)
            await rt.settle(2)
            log.append({'ev': 'assign', 'v': cls[v - 1], 'deliv': deliv, 'out': tag(snd.output),
                        'late': len(got) - len(deliv)})
        if circuit.error is not None:
            log.append({'ev': 'circuit_error'})
            return
        if stim.get('late') and kind != 'c':
            import asyncio
            circuit.abort(asyncio.CancelledError('shutdown'))       # what shutdown() does first
            for v in stim['late']:
                del got[:]
                try:
                    snd.event('set' if kind in ('s', 'a', 'f') else 'put', value=objs[v - 1])
                except edzed.EdzedError:
                    log.append({'ev': 'send_failed'})
                    return
                log.append({'ev': 'assign', 'v': cls[v - 1], 'deliv': list(got), 'out': tag(snd.output),
                            'late': 0})

    rt.run_circuit(build, script, storage={} if stim['kind'] == 'k' else None)
    strip = lambda lst: [{'dest': e['dest'], 'etype': e['etype'], 'filters': e['filters']} for e in lst]
    # values are named by the class id of their first equal object; NaN (never equal, not even
    # to itself) has equality class 0
    eq = [0 if objs[i] != objs[i] else i + 1 for i in range(len(cls))]
    hdr = {'kind': 'c' if stim['kind'] == 'c' else 's', 'cls': eq,
           'on_output': strip(stim['on_output']), 'on_every': strip(stim['on_every'])}
    return {'hdr': hdr, 'ev': log}


def nontrivial(stim, trace):
    cls = classes(make_objs())
    h = stim['hist']
    return any(a != b and cls[a - 1] == cls[b - 1] for a, b in zip(h, h[1:]))


def signature(stim, trace, why):
    e = why.get('event') or {}
    return f"reject:{e.get('ev')}:{stim['kind']}"
