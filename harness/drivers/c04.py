"""C04 - a timed state yields its timed event exactly once, on time, unless left earlier."""
from __future__ import annotations

import asyncio
import json
import random

from .. import vt

PROP = 'C04'
TRACE_SPEC = 'FsmTimedTrace'
RULE = ('stimulus = (block: generated timed FSM with table / timed events / class and instance '
        'durations / conditions, or Timer, or InputExp, with their duration arguments in number / '
        'string / INF / None form) + schedule of external events on a 0.25 s grid (with optional '
        "'duration' items) + stop instant; schedules come from TLC behaviours of MC_FsmTimed and from "
        'a seeded generator; distinct = SHA-1 of canonical JSON; non-trivial = at least one timer '
        'fired or was cancelled by leaving the state')
SHARDS = {'quick': 4, 'thorough': 8}
ASSUMPTIONS = ['durations are multiples of 0.25 s, so virtual float time is exact',
               'the order of a stimulus and an expiry at the same virtual instant is left to asyncio '
               '(the monitor accepts both)']

TICK = 0.25
NONEV, INFV, ABSENTV = 9001, 9002, 9003


def models(tier, seed):
    ms = [dict(name='MC_FsmTimed', spec='MC_FsmTimed',
               cfg='MC_FsmTimed.cfg' if tier == 'quick' else 'MC_FsmTimed_all.cfg',
               timeout=3000),
          dict(name='MC_FsmTimed no cancel on exit (sharpness)', spec='MC_FsmTimed',
               cfg='MC_FsmTimed_nocancel.cfg', expect_violation='AtMostOnePending'),
          dict(name='MC_FsmTimed starts from saved states, output events coming back', spec='MC_FsmTimed',
               cfg='MC_FsmTimed_restore.cfg' if tier == 'quick' else 'MC_FsmTimed_restore_deep.cfg', timeout=3000),
          dict(name='MC_FsmTimed restored timer started after the output events (sharpness)', spec='MC_FsmTimed',
               cfg='MC_FsmTimed_restorelate.cfg', expect_violation='AtMostOnePending'),
          dict(name='MC_FsmTimed fired timer kept (sharpness)', spec='MC_FsmTimed',
               cfg='MC_FsmTimed_stale.cfg', expect_violation='ReportedIsPending'),
          dict(name='export', spec='MC_FsmTimed', cfg='MC_FsmTimed_export.cfg',
               simulate='num=%d' % (40 if tier == 'quick' else 400), depth=14, seed=seed % 100000)]
    return ms


# ---------------------------------------------------------------- stimuli
def _rep(rnd):
    return rnd.randint(0, 3)


def _from_export(rec, rnd):
    cfg = dict(rec['cfg'])
    cfg['kind'] = 'fsm'
    cfg['initv'] = 0
    cfg.setdefault('xbad', [0] * cfg['n'])
    cfg.setdefault('echain', [0] * cfg['n'])
    script = []
    stop_at = None
    for h in rec['hist']:
        if h['op'] == 'ext':
            script.append({'t': h['t'], 'e': h['e'], 'd': h['d'], 'v': 0, 'rep': _rep(rnd), 'c': int(bool(h.get('c')))})
        elif h['op'] == 'stop':
            stop_at = h['t']
    if stop_at is None:
        stop_at = rec['now'] + rnd.choice([0, 1, 2, 3])
    return {'cfg': cfg, 'args': {'reps': [_rep(rnd) for _ in range(8)]}, 'script': script,
            'stop_at': stop_at, 'tail': 4}


def _rand_fsm(rnd):
    n = rnd.choice([1, 2, 2, 3, 3, 4])
    m = rnd.choice([1, 2, 2, 3])
    T = [-1, -1, 0] + list(range(1, n + 1)) * 2
    trans = [[rnd.choice(T) for _ in range(n)] for _ in range(m)]
    any_ = [rnd.choice([-1, -1, 0] + list(range(1, n + 1))) for _ in range(m)]
    known = [e for e in range(1, m + 1) if any_[e - 1] != -1 or any(t != -1 for t in trans[e - 1])]
    tev, cdur, idur = [], [], []
    D = [NONEV, 0, 0, 1, 2, 3, 4, 6, INFV, -1]
    for s in range(1, n + 1):
        r = rnd.random()
        if r < 0.3 or (not known and r < 0.6):
            tev.append(0), cdur.append(NONEV), idur.append(ABSENTV)
            continue
        tev.append(rnd.choice(known) if known and rnd.random() < 0.6 else 100 + rnd.randint(1, n))
        cdur.append(rnd.choice(D))
        idur.append(rnd.choice([ABSENTV, ABSENTV, NONEV, 0, 1, 2, 5, INFV]))
    cf = [[int(rnd.random() < 0.2) for _ in range(n)] for _ in range(m)]
    return {'n': n, 'm': m, 'trans': trans, 'any': any_, 'cf': cf, 'tev': tev, 'cdur': cdur,
            'idur': idur, 'init': rnd.randint(1, n), 'kind': 'fsm', 'initv': 0,
            'xbad': [int(rnd.random() < 0.15) for _ in range(n)],
            # the entry action of a state may send an event to its own FSM (chained transition)
            'echain': [rnd.choice([0, 0, 0] + known + [100 + rnd.randint(1, n)]) for _ in range(n)]}


def _timer_cfg(args):
    nr = 0 if args['restartable'] else 1
    if args['t_period'] != ABSENTV:
        idur = [args['t_period'], args['t_period']]     # t_period = 2 x this many ticks
    else:
        idur = [args['t_off'], args['t_on']]
    return {'n': 2, 'm': 3, 'trans': [[-1, -1], [-1, -1], [2, 1]], 'any': [2, 1, -1],
            'cf': [[0, nr], [nr, 0], [0, 0]], 'tev': [1, 2], 'cdur': [INFV, INFV], 'idur': idur,
            'init': args['init'], 'kind': 'timer', 'initv': 0, 'xbad': [0, int(bool(args.get('xbad')))],
            'echain': [0, 0]}


def _inputexp_cfg(args):
    return {'n': 2, 'm': 1, 'trans': [[-1, -1]], 'any': [2], 'cf': [[0, 0]], 'tev': [0, 101],
            'cdur': [NONEV, NONEV], 'idur': [ABSENTV, args['duration']],
            'init': 2 if args['initv'] else 1, 'kind': 'inputexp', 'initv': args['initv'], 'xbad': [0, 0], 'echain': [0, 0]}


def _rand_script(rnd, cfg, horizon):
    script = []
    for _ in range(rnd.randint(1, 7)):
        t = rnd.randint(0, horizon)
        r = rnd.random()
        if cfg['kind'] == 'inputexp':
            e = 1 if r < 0.9 else 0
        elif r < 0.08:
            e = 0                                           # unknown event type
        elif r < 0.2 and cfg['kind'] == 'fsm':
            e = 100 + rnd.randint(1, cfg['n'])
        else:
            e = rnd.randint(1, cfg['m'])
        d = rnd.choice([ABSENTV] * 5 + [NONEV, 0, 1, 2, 3, 5, INFV, -2])
        script.append({'t': t, 'e': e, 'd': d, 'v': rnd.randint(1, 5), 'rep': _rep(rnd),
                       'c': int(cfg['kind'] == 'fsm' and rnd.random() < 0.4),
                       # delivered by a loop callback that is due a hair before a timer of the same
                       # tick: both are collected in one loop iteration, the event is handled first
                       'race': rnd.random() < 0.35})
    script.sort(key=lambda x: x['t'])
    return script


def stimuli(tier, seed, ctx):
    rnd = random.Random(seed)
    out = []
    seen = set()
    # (i) behaviours of the TLA+ model (environment histories incl. the model's race schedules)
    for p in ctx['export'].printed:
        if p and p[0] == 'EXPORT':
            if p[1] in seen:
                continue
            seen.add(p[1])
            out.append(_from_export(json.loads(p[1]), rnd))
    lim = 700 if tier == 'quick' else 12000
    if len(out) > lim:
        out = rnd.sample(out, lim)
    # (ii) random machines and schedules
    nr = 500 if tier == 'quick' else 10000
    for _ in range(nr):
        cfg = _rand_fsm(rnd)
        if rnd.random() < 0.25:
            # the run starts from a saved state: a timed state whose timer has some ticks left
            timed = [x for x in range(1, cfg['n'] + 1) if cfg['tev'][x - 1]]
            rs = rnd.choice(timed) if timed and rnd.random() < 0.8 else rnd.randint(1, cfg['n'])
            cfg['rest'] = {'on': True, 's': rs, 'due': rnd.randint(1, 6) if cfg['tev'][rs - 1] else -1, 'fb': 0}
            if rnd.random() < 0.6:
                # the output events of the restored state come back to the FSM (through another
                # block) as an event, while _restore_state() is still running
                cfg['rest']['fb'] = rnd.choice(list(range(1, cfg['m'] + 1)) + [100 + rnd.randint(1, cfg['n'])])
        out.append({'cfg': cfg, 'args': {'reps': [_rep(rnd) for _ in range(8)]},
                    'script': _rand_script(rnd, cfg, 14), 'stop_at': rnd.randint(3, 18), 'tail': 8,
                    'stopfault': 6 if rnd.random() < 0.2 else 0})
    # (iii) Timer
    for _ in range(nr // 2):
        per = rnd.random() < 0.25
        args = {'t_on': rnd.choice([ABSENTV, NONEV, 0, 1, 2, 3, 4, INFV]),
                't_off': rnd.choice([ABSENTV, NONEV, 0, 1, 2, 3, INFV]),
                't_period': rnd.choice([1, 2, 3]) if per else ABSENTV,
                'restartable': rnd.random() < 0.6, 'init': rnd.choice([1, 1, 2]),
                'xbad': rnd.random() < 0.15,
                'reps': [_rep(rnd) for _ in range(8)]}
        if args['t_period'] == ABSENTV and all(args[k] in (0, -1) for k in ('t_on', 't_off')):
            args['t_on'] = 2            # (astable with zero delays is an endless chain: excluded)
        cfg = _timer_cfg(args)
        out.append({'cfg': cfg, 'args': args, 'script': _rand_script(rnd, cfg, 14),
                    'stop_at': rnd.randint(3, 18), 'tail': 8,
                    'stopfault': 6 if rnd.random() < 0.2 else 0})
    # (iv) InputExp
    for _ in range(nr // 2):
        args = {'duration': rnd.choice([NONEV, 0, 1, 2, 3, 4, INFV]), 'initv': rnd.choice([0, 0, 3]),
                'reps': [_rep(rnd) for _ in range(8)]}
        cfg = _inputexp_cfg(args)
        out.append({'cfg': cfg, 'args': args, 'script': _rand_script(rnd, cfg, 14),
                    'stop_at': rnd.randint(3, 18), 'tail': 8,
                    'stopfault': 6 if rnd.random() < 0.2 else 0})
    return out


# ---------------------------------------------------------------- execution
def _dur(code, rep, half=False):
    """duration code -> a Python value in one of the accepted notations"""
    import edzed
    if code == NONEV:
        return None
    if code == INFV:
        return edzed.INF_TIME
    secs = code * TICK / (2 if half else 1)
    if secs < 0:
        return secs
    if rep == 0:
        return secs
    if rep == 1:
        return int(secs) if secs == int(secs) else secs
    if rep == 2:
        return f'{secs}s'
    mins, s = divmod(secs, 60)
    return f'{int(mins)}m{s}s'


def execute(stim):
    import edzed
    cfg, args = stim['cfg'], stim['args']
    kind = cfg['kind']
    reps = args['reps']
    n, m = cfg['n'], cfg['m']
    lines = []
    st = {'depth': 0, 'driver': False, 'fsm': None, 'loop': None, 't0': 0.0, 'wall0': 0.0}

    if kind == 'timer':
        snames, enames = ['off', 'on'], ['start', 'stop', 'toggle']
    elif kind == 'inputexp':
        snames, enames = ['expired', 'valid'], ['put']
    else:
        snames = [f's{i}' for i in range(1, n + 1)]
        enames = [f'e{i}' for i in range(1, m + 1)]

    def ecode(et):
        if isinstance(et, edzed.Goto):
            return 100 + snames.index(et.state) + 1
        return enames.index(et) + 1 if et in enames else 0

    def etype(code):
        if code >= 100:
            return edzed.Goto(snames[code - 101])
        return enames[code - 1] if code else 'nosuchevent'

    def tick(t):
        x = (t - st['t0']) / TICK
        r = round(x)
        if abs(x - r) > 1e-6:
            raise RuntimeError(f'machinery: time {t} is off the tick grid')
        return r

    def proj():
        fsm, loop = st['fsm'], st['loop']
        pend = []
        for h in list(loop._scheduled) + list(loop._ready):
            cb = getattr(h, '_callback', None)
            if h.cancelled() or getattr(cb, '__self__', None) is not fsm:
                continue
            pend.append({'due': tick(h.when()) if hasattr(h, 'when') else tick(loop.time()),
                         'e': ecode(h._args[0])})
        pend.sort(key=lambda p: (p['due'], p['e']))
        try:
            gst = fsm.get_state()
            g = -1 if gst[1] is None else round((gst[1] - st['wall0']) / TICK)
        except Exception:
            g = -2
        s = fsm.state
        sc = snames.index(s) + 1 if s in snames else 0
        o = fsm.output
        if kind == 'timer':
            oc = {True: 1, False: 0}.get(o, -5) if isinstance(o, bool) else -5
        elif kind == 'inputexp':
            oc = 77 if o == 'X' else (o if isinstance(o, int) else -5)
        else:
            oc = snames.index(o) + 1 if o in snames else 0
        return {'st': sc, 'out': oc, 'pend': pend, 'gs': g}

    orig_event = edzed.SBlock.event

    def wrapped(self, etype_, /, **data):
        if self is not st['fsm']:
            return orig_event(self, etype_, **data)
        top = st['depth'] == 0 and not st['driver']
        st['depth'] += 1
        ret = 'badret'
        try:
            r = orig_event(self, etype_, **data)
            ret = {True: 'true', False: 'false'}.get(r, 'badret') if isinstance(r, bool) else 'badret'
            return r
        except edzed.EdzedUnknownEvent:
            ret = 'unknown'
            raise
        except Exception:
            ret = 'error'
            raise
        finally:
            st['depth'] -= 1
            if top:     # called by the loop: a timer expired
                lines.append({'ev': 'fire', 't': tick(st['loop'].time()), 'e': ecode(etype_),
                              'ret': ret, **proj()})
    wrapped.__name__ = 'event'

    def build():
        if kind == 'timer':
            kw = {}
            if args['t_period'] != ABSENTV:
                kw['t_period'] = _dur(2 * args['t_period'], reps[0])
            else:
                if args['t_on'] != ABSENTV:
                    kw['t_on'] = _dur(args['t_on'], reps[0])
                if args['t_off'] != ABSENTV:
                    kw['t_off'] = _dur(args['t_off'], reps[1])
            if args.get('xbad'):
                kw['on_exit_on'] = edzed.Event(edzed.Input('sink', initdef=0), 'nosuchevent')
            return edzed.Timer('blk', restartable=args['restartable'],
                               initdef=snames[args['init'] - 1], **kw)
        if kind == 'inputexp':
            kw = {}
            if args['initv']:
                kw['initdef'] = args['initv']
            return edzed.InputExp('blk', duration=_dur(args['duration'], reps[0]), expired='X', **kw)
        events = []
        for e in range(1, m + 1):
            for s in range(1, n + 1):
                t = cfg['trans'][e - 1][s - 1]
                if t != -1:
                    events.append((f'e{e}', [f's{s}'], f's{t}' if t else None))
            t = cfg['any'][e - 1]
            if t != -1:
                events.append((f'e{e}', None, f's{t}' if t else None))
        timers = {}
        for s in range(1, n + 1):
            if cfg['tev'][s - 1]:
                timers[f's{s}'] = (_dur(cfg['cdur'][s - 1], reps[s % 8]), etype(cfg['tev'][s - 1]))
        ns = {'STATES': list(snames), 'EVENTS': events, 'TIMERS': timers}
        for e in range(1, m + 1):
            if any(cfg['cf'][e - 1]) and any(ev[0] == f'e{e}' for ev in events):
                def cond(self, _e=e):
                    return not cfg['cf'][_e - 1][snames.index(self.state)]
                ns[f'cond_e{e}'] = cond
        for s in range(1, n + 1):
            if cfg['echain'][s - 1]:
                def enter(self, _ev=cfg['echain'][s - 1]):
                    if edzed.fsm_event_data.get().get('chain'):
                        self.event(etype(_ev))
                ns[f'enter_s{s}'] = enter
        cls = type('GenTimedFSM', (edzed.FSM,), ns)
        kw = {}
        for s in range(1, n + 1):
            if cfg['tev'][s - 1] and cfg['idur'][s - 1] != ABSENTV:
                kw[f't_s{s}'] = _dur(cfg['idur'][s - 1], reps[(s + 3) % 8])
        if any(cfg['xbad']):
            sink = edzed.Input('sink', initdef=0)
            for s in range(1, n + 1):
                if cfg['xbad'][s - 1]:      # this on_exit event fails non-fatally
                    kw[f'on_exit_s{s}'] = edzed.Event(sink, 'nosuchevent')
        if cfg.get('rest', {}).get('on'):
            kw['persistent'] = True
            fb = cfg['rest'].get('fb', 0)
            if fb:
                class Feedback(edzed.SBlock):
                    """sends ONE event back to the FSM: on the first output event it receives, i.e.
                    while the FSM is assigning the output of the restored state"""
                    used = False

                    def init_regular(self):
                        self.set_output(0)

                    def _event(self, etype_, data):
                        if etype_ != 'go':
                            raise edzed.EdzedUnknownEvent(etype_)
                        if not self.used:
                            self.used = True
                            try:
                                st['fsm'].event(etype(fb))
                            except (edzed.EdzedUnknownEvent, edzed.EdzedCircuitError):
                                pass        # (a fatal error has stopped the simulation by itself)
                Feedback('fbk')
                first = []

                def once(data):     # (only the very first output event is sent)
                    if first:
                        return False
                    first.append(1)
                    return True
                kw['on_output'] = edzed.Event('fbk', 'go', efilter=once)
        return cls('blk', initdef=snames[cfg['init'] - 1], **kw)

    def factory(loop, clock):
        async def main():
            circuit = edzed.get_circuit()
            # blocks whose clean-up fails: the FSM must be stopped (its timer cancelled) all the same
            nbad = stim.get('stopfault', 0)

            class BadStop(edzed.SBlock):
                def init_regular(self):
                    self.set_output(0)

                def stop(self):
                    super().stop()
                    raise RuntimeError('scripted stop() failure')
            for i in range(nbad // 2):
                BadStop(f'bad{i}')
            fsm = build()
            for i in range(nbad // 2, nbad):
                BadStop(f'bad{i}')
            st['fsm'], st['loop'] = fsm, loop
            edzed.Not('keepalive').connect(fsm)
            st['t0'], st['wall0'] = loop.time(), clock.time()
            rest = cfg.get('rest') or {}
            if rest.get('on'):
                circuit.set_persistent_data({fsm.key: (
                    f"s{rest['s']}", None if rest['due'] < 0 else st['wall0'] + rest['due'] * TICK, {})})
            st['driver'] = True         # the initialising Goto is not a timer expiry
            task = asyncio.create_task(circuit.run_forever())
            try:
                await circuit.wait_init()
                iret = 'true'
            except Exception:
                iret = 'error'
            st['driver'] = False
            if iret == 'true' and circuit.error is not None:
                iret = 'error'
            lines.append({'ev': 'init', 't': tick(loop.time()), 'ret': iret,
                          **(proj() if iret == 'true' else {'st': 0, 'out': 0, 'pend': [], 'gs': -1})})

            async def until(t):
                delay = st['t0'] + t * TICK - loop.time()
                if delay > 0:
                    await asyncio.sleep(delay)

            stop_at = stim['stop_at']

            def do_op(op):
                data = {}
                if op['d'] != ABSENTV:
                    data['duration'] = _dur(op['d'], op['rep'])
                if kind == 'inputexp':
                    data['value'] = op['v']
                if op.get('c'):
                    data['chain'] = 1
                et = etype(op['e'])
                st['driver'] = True
                try:
                    if isinstance(et, edzed.Goto):
                        r = fsm.event(et, **data)
                    else:
                        r = edzed.ExtEvent(fsm, et).send(**data)
                    ret = {True: 'true', False: 'false'}.get(r, 'badret') if isinstance(r, bool) else 'badret'
                except edzed.EdzedUnknownEvent:
                    ret = 'unknown'
                except edzed.EdzedCircuitError:
                    ret = 'error'
                except edzed.EdzedInvalidState:
                    ret = 'invalid'
                finally:
                    st['driver'] = False
                lines.append({'ev': 'ext', 't': tick(loop.time()), 'e': op['e'], 'd': op['d'],
                              'v': op['v'], 'c': int(bool(op.get('c'))), 'ret': ret,
                              **(proj() if ret != 'error' else {'st': 0, 'out': 0, 'pend': [], 'gs': -1})})

            for op in stim['script']:
                if op['t'] > stop_at or circuit.error is not None or task.done():
                    break
                when = st['t0'] + op['t'] * TICK
                if op.get('race') and when - 4e-10 > loop.time():
                    fut = loop.create_future()

                    def cb(op=op, fut=fut):
                        try:
                            if circuit.error is None and not task.done():
                                do_op(op)
                        finally:
                            fut.set_result(None)
                    loop.call_at(when - 4e-10, cb)
                    await fut
                    continue
                await until(op['t'])
                if circuit.error is not None or task.done():
                    break
                do_op(op)
            if circuit.error is None and not task.done():
                await until(stop_at)
            if not task.done():
                try:
                    await circuit.shutdown()
                except BaseException:
                    pass
            try:
                await task
            except BaseException:
                pass
            lines.append({'ev': 'stop', 't': tick(loop.time()), 'pend': proj()['pend']})
            await asyncio.sleep(stim['tail'] * TICK)
            lines.append({'ev': 'end', 't': tick(loop.time()), 'pend': proj()['pend']})
        return main()

    edzed.SBlock.event = wrapped
    try:
        vt.run(factory)
    finally:
        edzed.SBlock.event = orig_event
    hdr = dict(cfg)
    hdr.setdefault('rest', {'on': False, 's': 1, 'due': -1, 'fb': 0})
    hdr['rest'].setdefault('fb', 0)
    return {'hdr': hdr, 'ev': lines}


def nontrivial(stim, trace):
    evs = trace['ev']
    if any(e['ev'] == 'fire' for e in evs):
        return True
    prev = None
    for e in evs:
        if e['ev'] in ('init', 'ext') and prev and prev.get('pend') and e.get('ret') == 'true':
            return True
        prev = e
    return False


def signature(stim, trace, why):
    e = why.get('event') or {}
    st = why.get('spec_state_before')
    kind = stim['cfg']['kind']
    detail = ''
    if e.get('ev') in ('fire', 'ext', 'init'):
        if e.get('gs', -1) >= 0 and not e.get('pend'):
            detail = ':reported-expiry-without-pending-timer'
        elif len(e.get('pend') or []) > 1:
            detail = ':several-pending'
    return f"reject:{kind}:{e.get('ev')}:ret={e.get('ret')}{detail}"
