"""C12 - OutputAsync honours its mode for every arrival pattern."""
from __future__ import annotations

import asyncio
import json
import random

from .. import vt

PROP = 'C12'
TRACE_SPEC = 'OutputAsyncTrace'
RULE = ('stimulus = (mode wait/cancel/start in long or short spelling, guard_time, stop_data on/off, '
        'stop_timeout) + arrival pattern on a 0.25 s grid: puts with run duration (0..3 ticks) and '
        '"coroutine raises" flag, bursts at one instant, arrivals during a run / during the guard '
        'sleep, stop instant; patterns come from TLC behaviours of OutputAsync.tla (all three modes) '
        'and a seeded generator; distinct = SHA-1 of canonical JSON; non-trivial = an arrival while a '
        'run or guard sleep is in progress, or a burst')
SHARDS = {'quick': 4, 'thorough': 8}
TICK = 0.25
CFGS = [('w', 1, True), ('c', 1, True), ('s', 0, True), ('c', 0, False), ('w', 0, False), ('s', 1, False)]


def _cfg(mode, guard, stopdata, export, maxputs=3):
    head = ('SPECIFICATION Spec\nCONSTANTS Mode = "%s"\n Guard = %d\n MaxPuts = %d\n MaxNow = 9\n'
            ' StopData = %s\n Durs = {1, 2}\n MinStop = %d\n MaxLevel = %d\n'
            % (mode, guard, maxputs, 'TRUE' if stopdata else 'FALSE', 2 if export else 0, 30 if export else 40))
    if export:
        return head + 'CONSTRAINT Export\nCHECK_DEADLOCK FALSE\n'
    invs = ['M1_EveryPutResolved', 'M2_OneAtATime', 'M3w_ArrivalOrder', 'M3c_CancelOnlyForNewer',
            'M3s_StartAtOnce', 'M4_OutputCountsRuns', 'M5_GuardRespected', 'M6_StopDataLast', 'Quiet']
    return head + ''.join(f'INVARIANT {i}\n' for i in invs) + 'CONSTRAINT Bound\nVIEW View\nCHECK_DEADLOCK FALSE\n'


def models(tier, seed):
    ms = []
    for mode, guard, sd in (CFGS if tier == 'thorough' else CFGS[:3]):
        ms.append(dict(name=f'OutputAsync mode={mode} guard={guard} stop_data={sd}', spec='OutputAsync',
                       cfg_text=_cfg(mode, guard, sd, False), timeout=1800))
    # liveness: after stop everything pending completes (weak fairness of the block's own steps)
    ms.append(dict(name='OutputAsync liveness (cancel mode, 2 puts)', spec='OutputAsync', cfg_text=(
        'SPECIFICATION FairSpec\nCONSTANTS Mode = "c"\n Guard = 1\n MaxPuts = 2\n MaxNow = 12\n StopData = TRUE\n'
        ' Durs = {1}\n MinStop = 0\n MaxLevel = 99\nPROPERTY StopCompletes\nCHECK_DEADLOCK FALSE\n')))
    for mode, guard, sd in CFGS:
        ms.append(dict(name=f'export {mode}{guard}{int(sd)}', spec='OutputAsync',
                       cfg_text=_cfg(mode, guard, sd, True, maxputs=4),
                       simulate='num=%d' % (6 if tier == 'quick' else 60), depth=30, seed=seed % 100000))
    return ms


def _from_export(rec, rnd):
    arrivals, stop_at = [], None
    for h in rec['hist']:
        if h['op'] == 'put':
            arrivals.append({'t': h['t'], 'd': h['d'], 'f': bool(h['f'])})
        else:
            stop_at = h['t']
    if stop_at is None:
        stop_at = rec['now'] + rnd.randint(0, 3)
    return {'mode': rec['mode'], 'spell': rnd.randint(0, 1), 'guard': rec['guard'], 'stopdata': bool(rec['stopdata']),
            'sdur': rec['sdur'] or 1, 'arrivals': arrivals, 'stop_at': stop_at, 'stop_timeout': 60}


def _random(rnd):
    mode = rnd.choice('wcs')
    k = rnd.choice([0, 1, 2, 3, 3, 4, 5, 6])
    times = sorted(rnd.choice([0, 0, 1, 1, 2, 2, 3, 4, 5, 6, 8]) for _ in range(k))
    return {'mode': mode, 'spell': rnd.randint(0, 1), 'guard': rnd.choice([0, 0, 1, 2, 3]),
            'stopdata': rnd.random() < 0.5, 'sdur': rnd.choice([0, 1, 2]),
            # f: the run fails (True), or ends with a CancelledError of its own ('self')
            'arrivals': [{'t': t, 'd': rnd.choice([0, 1, 1, 2, 3]),
                          'f': rnd.choice([True, True, 'self']) if rnd.random() < 0.25 else False} for t in times],
            'stop_at': rnd.choice([0, 1, 2, 3, 5, 8, 12, 20]),
            # (mostly ample; sometimes shorter than the work that is pending at the stop)
            'stop_timeout': rnd.choice([60, 60, 60, 3, 4, 6]),
            # events without any data item (f_args=()): sent with block.event('put')
            'nodata': mode in 'ws' and rnd.random() < 0.2,
            # debug messages of the block enabled (must not change anything)
            'debug': rnd.random() < 0.25}


def stimuli(tier, seed, ctx):
    rnd = random.Random(seed)
    out, seen = [], set()
    for name, r in ctx.items():
        if not name.startswith('export'):
            continue
        for p in r.printed:
            if p and p[0] == 'EXPORT' and p[1] not in seen:
                seen.add(p[1])
                out.append(_from_export(json.loads(p[1]), rnd))
    lim = 600 if tier == 'quick' else 10000
    if len(out) > lim:
        out = rnd.sample(out, lim)
    for _ in range(700 if tier == 'quick' else 12000):
        out.append(_random(rnd))
        out[-1]['guard'] = min(out[-1]['guard'], out[-1]['stop_timeout'])     # (required by the block)
    return out


def execute(stim):
    import edzed
    lines = []
    st = {'loop': None, 't0': 0.0}
    mode = stim['mode']

    def tick():
        x = (st['loop'].time() - st['t0']) / TICK
        r = round(x)
        if abs(x - r) > 1e-6:
            raise RuntimeError('machinery: time off the tick grid')
        return r

    def rec(ev, **kw):
        lines.append(dict(ev=ev, t=tick(), **kw))

    sent = {}

    class Probe(edzed.SBlock):
        def init_regular(self):
            self.set_output(None)

        def _event(self, etype, data):
            if etype == 'out':
                rec('out', n=data['value'] if isinstance(data['value'], int) else -9)
                return
            put = data.get('put', {})
            if stim.get('nodata'):
                # no data item identifies the event: the result is sent right after its coroutine ended
                rec('res', id=st.get('last_end', -9), kind=etype,
                    same=bool(dict(put) == {} and data.get('trigger') == etype and data.get('source') == 'oa'))
                return
            i = put.get('value', -9)
            same = (isinstance(i, int) and i in sent and dict(put) == sent[i]
                    and data.get('trigger') == etype and data.get('source') == 'oa')
            if etype == 'success':
                same = same and data.get('value') == i * 10
            if etype == 'error':
                same = same and isinstance(data.get('error'), RuntimeError)
            rec('res', id=i if isinstance(i, int) else -9, kind=etype, same=bool(same))

    durs, fails, selfc = {9: stim['sdur']}, set(), set()

    async def coro(v=None, tag=None):
        if stim.get('nodata'):      # wait / start mode: runs start in arrival order
            st['nstart'] = v = st.get('nstart', 0) + 1
            if v > st.get('nputs', 0):
                v = 9               # all puts have started: this is the stop_data run
        if not isinstance(v, int) or isinstance(v, bool):
            v = -9                  # (verdicts are total: a run that did not get its argument)
        rec('start', id=v)
        how = 'ok'
        try:
            await asyncio.sleep(durs.get(v, 1) * TICK)
            if v in fails:
                how = 'fail'
                raise RuntimeError('scripted failure')
            if v in selfc:
                how = 'selfcancel'
                raise asyncio.CancelledError('scripted: a future awaited by the coroutine was cancelled')
        except asyncio.CancelledError:
            if how != 'selfcancel':
                how = 'cancelled'
            raise
        finally:
            st['last_end'] = v
            rec('end', id=v, how=how)
        return v * 10

    def factory(loop, clock):
        async def main():
            circuit = edzed.get_circuit()
            probe = Probe('probe')
            spelled = {'w': 'wait', 'c': 'cancel', 's': 'start'}[mode] if stim['spell'] else mode
            sdata = {'value': 9, 'tag': 'stop', 'source': 'stopdata'} if stim['stopdata'] else None
            if sdata and stim.get('nodata'):
                sdata = {}          # a coroutine without arguments: the stop_data is an empty mapping
            if sdata is not None:
                sent[9] = dict(sdata)
            oa = edzed.OutputAsync(
                'oa', coro=coro, mode=spelled, f_args=[] if stim.get('nodata') else ['value'],
                f_kwargs=[] if stim.get('nodata') else ['tag'],
                guard_time=stim['guard'] * TICK if stim['guard'] else None,
                on_success=edzed.Event(probe, 'success'), on_error=edzed.Event(probe, 'error'),
                on_cancel=edzed.Event(probe, 'cancel'),
                on_output=edzed.Event(probe, 'out', efilter=edzed.not_from_undef),
                stop_data=sdata, stop_timeout=stim['stop_timeout'] * TICK,
                **({'debug': True} if stim.get('debug') else {}))
            edzed.Not('keepalive').connect(probe)
            st['loop'], st['t0'] = loop, loop.time()
            task = asyncio.create_task(circuit.run_forever())
            await circuit.wait_init()
            for i, a in enumerate(stim['arrivals'], 1):
                if a['t'] > stim['stop_at'] or circuit.error is not None:
                    break
                delay = st['t0'] + a['t'] * TICK - loop.time()
                if delay > 0:
                    await asyncio.sleep(delay)
                if circuit.error is not None:
                    break
                durs[i] = a['d']
                if a['f'] == 'self':
                    selfc.add(i)
                elif a['f']:
                    fails.add(i)
                rec('put', id=i)
                st['nputs'] = i
                data = {'tag': f'e{i}', 'extra': i * 7}
                sent[i] = dict(data, value=i, source='_ext_')
                if stim.get('nodata'):
                    oa.event('put')
                else:
                    edzed.ExtEvent(oa).send(i, **data)
            delay = st['t0'] + stim['stop_at'] * TICK - loop.time()
            if delay > 0 and circuit.error is None:
                await asyncio.sleep(delay)
            rec('stop')
            if stim['stopdata']:
                rec('put', id=9)
            err = None
            try:
                await circuit.shutdown()
            except BaseException as e:     # noqa
                err = e
            try:
                await task
            except BaseException:
                pass
            rec('stopped', error=repr(circuit.error)[:120] if not isinstance(
                circuit.error, asyncio.CancelledError) else '')
            await asyncio.sleep(8 * TICK)
            left = [t for t in asyncio.all_tasks() if t is not asyncio.current_task() and not t.done()]
            rec('fin', leftover=len(left))
        return main()

    vt.run(factory)
    # the default source of an external event
    hdr = {'mode': mode, 'guard': stim['guard'], 'stop_timeout': stim['stop_timeout'],
           'stopdata': bool(stim['stopdata'])}
    return {'hdr': hdr, 'ev': lines}


def nontrivial(stim, trace):
    busy_until = -1
    last_t = None
    for e in trace['ev']:
        if e['ev'] == 'put' and e['id'] != 9:
            if e['t'] < busy_until or e['t'] == last_t:
                return True
            last_t = e['t']
        elif e['ev'] == 'start':
            busy_until = 10 ** 9
        elif e['ev'] == 'end':
            busy_until = e['t'] + trace['hdr']['guard']
    return False


def signature(stim, trace, why):
    if 'invariant' in why:
        return f"inv:{why['invariant']}:mode={stim['mode']}"
    e = why.get('event') or {}
    if e.get('ev') == 'stopped':
        t0 = [x['t'] for x in trace['ev'] if x['ev'] == 'stop']
        if t0 and e['t'] > t0[0] + stim['stop_timeout'] + stim['guard']:
            # the stop took longer than stop_timeout although the block was cancelled in time
            return f"reject:stopped:overrun:mode={stim['mode']}"

    return f"reject:{e.get('ev')}:{e.get('kind', e.get('how', ''))}:mode={stim['mode']}"
