"""C01 - combinational outputs agree with their inputs whenever the circuit is idle."""
from __future__ import annotations

import itertools
import random

from .. import simcommon

PROP = 'C01'
TRACE_SPEC = 'SimTrace'
RULE = ('stimulus = (acyclic circuit of library CBlocks over 1..4 Input/Counter blocks with groups, '
        'Consts, _not_ shortcuts, reconvergent fan-out, CBlock->SBlock feedback; creation order; '
        'bursts of external events); distinct = SHA-1 of canonical JSON; non-trivial = some burst '
        'changed >= 2 combinational blocks, one of them not directly connected to a changed source')
SHARDS = {'quick': 6, 'thorough': 8}
execute = simcommon.execute


def models(tier, seed):
    ms = [dict(name='MC_Sim 2 inputs x 2 CBlocks (select_blk)', spec='MC_Sim', cfg='MC_Sim.cfg'),
          dict(name='MC_Sim any evaluation order (monitor)', spec='MC_Sim', cfg='MC_Sim_any.cfg')]
    if tier == 'thorough':
        ms.append(dict(name='MC_Sim 2 inputs x 3 CBlocks', spec='MC_Sim', cfg='MC_Sim_3.cfg', timeout=1800))
    return ms


def _s(name, init, src='input'):
    return {'name': name, 's': True, 'k': 's', 'ins': [], 'init': init, 'src': src, 'fb': []}


def _c(name, k, ins, p1=0, p2=0, fb=()):
    return {'name': name, 's': False, 'k': k, 'ins': ins, 'p1': p1, 'p2': p2, 'fb': list(fb)}


def _ref(rnd, x, names_ok=True):
    t = rnd.choice(['blk', 'name', 'name'] if names_ok else ['blk'])
    return {'t': t, 'x': x}


def _exhaustive(rnd, nc, tier, seed):
    """all acyclic topologies of nc blocks {not,and,or,xor} over 2 inputs (space of MC_Sim)"""
    out = []
    ns = 2
    kinds = ['not', 'and', 'or', 'xor']

    def insets(c):
        lower = list(range(1, c))
        return [list(x) for r in range(1, len(lower) + 1) for x in itertools.combinations(lower, r)]
    per_block = []
    for c in range(ns + 1, ns + nc + 1):
        opts = [(k, ins) for k in kinds for ins in insets(c) if k != 'not' or len(ins) == 1]
        per_block.append(opts)
    k = 0
    for combo in itertools.product(*per_block):
        k += 1
        if nc == 3 and k % (40 if tier == 'quick' else 2) != seed % (40 if tier == 'quick' else 2):
            continue
        blocks = [_s('i1', 0), _s('i2', 0)]
        for j, (kind, ins) in enumerate(combo):
            blocks.append(_c(f'c{j + 1}', kind, [_ref(rnd, x) for x in ins]))
        for v1, v2 in ((0, 0), (1, 0), (0, 1), (1, 1)) if nc < 3 else (((k // 2) % 2, k % 2),):
            blocks2 = [dict(b) for b in blocks]
            blocks2[0]['init'], blocks2[1]['init'] = v1, v2
            # single flips and double-flip bursts reaching every vector
            bursts = [[(1, 'put', 1 - v1)], [(2, 'put', 1 - v2)], [(1, 'put', v1), (2, 'put', v2)],
                      [(2, 'put', 1 - v2), (1, 'put', 1 - v1)], [(1, 'put', v1)]]
            out.append({'blocks': blocks2, 'bursts': bursts})
    return out


def _random(rnd):
    ns = rnd.randint(1, 4)
    nc = rnd.randint(1, 8)
    blocks = []
    valued = rnd.random() < 0.5          # integer valued circuit (Compare / Override / FuncBlock)
    for i in range(ns):
        src = 'counter' if valued and rnd.random() < .3 else 'input'
        blocks.append(_s(f'i{i + 1}', rnd.randint(0, 3) if valued else rnd.randint(0, 1), src))
        if ns > 1 and rnd.random() < 0.15:
            # its on_output event fails non-fatally (unknown event type at another S block)
            blocks[-1]['bad'] = rnd.choice([x for x in range(1, ns + 1) if x != i + 1])
    for j in range(nc):
        idx = ns + j + 1
        avail = list(range(1, idx))

        def r():
            x = rnd.random()
            if x < 0.12:
                return {'t': rnd.choice(['const', 'plain']), 'x': rnd.randint(0, 3)}
            if x < 0.3:
                return {'t': 'inv', 'x': rnd.choice(avail)}
            return _ref(rnd, rnd.choice(avail))
        kinds = ['not', 'and', 'or', 'xor', 'id']
        if valued:
            kinds += ['compare', 'override', 'wsum', 'wsum_np', 'wsum_named', 'compare']
        k = rnd.choice(kinds)
        p1 = p2 = 0
        if k in ('not', 'id'):
            ins = [r()]
        elif k == 'compare':
            ins = [r()]
            p1 = rnd.randint(0, 3)
            p2 = p1 + rnd.randint(0, 2)
        elif k == 'override':
            ins = [r(), r()]
            p1 = rnd.choice([0, 1, 2])
        elif k == 'wsum_named':
            ins = [r() for _ in range(rnd.randint(2, 5))]
        else:
            ins = [r() for _ in range(rnd.randint(0 if k in ('and', 'or', 'xor') else 1, 4))]
        if k in ('not', 'id', 'compare') and ins[0]['t'] in ('plain',):
            ins[0]['t'] = 'const'
        fb = []
        if rnd.random() < 0.15:
            fb = rnd.sample(range(1, ns + 1), rnd.randint(1, min(2, ns)))
        blocks.append(_c(f'c{j + 1}', k, ins, p1, p2, fb))
    # feedback must not create an event loop: the fed sequential block must not influence the sender
    deps = {}

    def upstream(i):
        if i in deps:
            return deps[i]
        deps[i] = set()
        for rf in blocks[i - 1]['ins']:
            if rf['t'] in ('blk', 'name', 'inv'):
                deps[i] |= {rf['x']} | upstream(rf['x'])
        return deps[i]
    for i, b in enumerate(blocks, 1):
        if b['fb']:
            up = upstream(i)
            # (an event that fails inside the simulator task is fatal: keep 'bad' blocks out)
            b['fb'] = [s for s in b['fb'] if s not in up and not blocks[s - 1].get('bad')]
    # equal-but-not-identical values (5 vs 5.0): blocks that produce them (mixf) and blocks
    # that can tell them apart (typ); only identity / typ / mixf consumers see such values
    fsrc = None
    if valued and rnd.random() < 0.4:
        fsrc = len(blocks) + 1
        blocks.append(_s(f'i{fsrc}', rnd.randint(0, 3)))
        sel = len(blocks) + 1
        blocks.append(_s(f'i{sel}', rnd.randint(0, 1)))
        base = len(blocks)
        blocks.append(_c(f'c{base + 1}', 'mixf', [{'t': 'blk', 'x': fsrc}, {'t': 'name', 'x': sel}]))
        blocks.append(_c(f'c{base + 2}', 'typ', [{'t': rnd.choice(['blk', 'name']), 'x': base + 1}]))
        blocks.append(_c(f'c{base + 3}', 'id', [{'t': 'name', 'x': base + 1}]))
        blocks.append(_c(f'c{base + 4}', 'typ', [{'t': 'blk', 'x': rnd.choice([base + 3, fsrc])}]))
    if rnd.random() < 0.25 and len(blocks) >= 3:
        # a block whose name contains '_not_' (and starts with the name of another block): its
        # '_not_NAME' shortcut must still mean the inverter of exactly that block
        x, y = rnd.sample(range(len(blocks)), 2)
        blocks[x]['name'] = f"{blocks[y]['name']}_not_{blocks[x]['name']}"
    order = list(range(1, len(blocks) + 1))
    if rnd.random() < .5:
        rnd.shuffle(order)
    bursts = []
    for _ in range(rnd.randint(3, 30) if rnd.random() < .3 else rnd.randint(2, 8)):
        burst = []
        for _ in range(rnd.choice([1, 1, 2, 3])):
            if fsrc and rnd.random() < 0.5:
                if rnd.random() < 0.5:
                    burst.append((fsrc + 1, 'put', rnd.randint(0, 1)))
                else:
                    burst.append((fsrc, rnd.choice(['put', 'putf']), rnd.randint(0, 3)))
                continue
            s = rnd.randint(1, ns)
            if blocks[s - 1]['src'] == 'counter':
                burst.append((s, rnd.choice(['inc', 'dec', 'reset']), 0))
            else:
                burst.append((s, 'put', rnd.randint(0, 3) if valued else rnd.randint(0, 1)))
        bursts.append(burst)
    return {'blocks': blocks, 'bursts': bursts, 'order': order}


def _big(rnd):
    """a long chain: one burst takes more than a hundred evaluations (settling must still be
    one uninterrupted step for every other task)"""
    n = rnd.choice([130, 160, 450])
    blocks = [_s('i1', rnd.randint(0, 1)), _s('i2', rnd.randint(0, 1))]
    for j in range(n):
        prev = 1 if j == 0 else j + 2
        k = rnd.choice(['not', 'id', 'id'])
        blocks.append(_c(f'c{j + 1}', k, [_ref(rnd, prev)]))
    last = len(blocks)
    blocks.append(_c(f'c{n + 1}', 'xor', [_ref(rnd, last), _ref(rnd, 2), _ref(rnd, rnd.randint(3, last))]))
    v = blocks[0]['init']
    bursts = [[(1, 'put', 1 - v)], [(2, 'put', 1), (1, 'put', v)], [(1, 'put', 1 - v), (2, 'put', 0)]]
    return {'blocks': blocks, 'bursts': bursts, 'big': True}


def stimuli(tier, seed, ctx):
    rnd = random.Random(seed)
    out = []
    for _ in range(4 if tier == 'quick' else 40):
        out.append(_big(rnd))
    out += _exhaustive(rnd, 1, tier, seed)
    out += _exhaustive(rnd, 2, tier, seed)
    out += _exhaustive(rnd, 3, tier, seed)
    for _ in range(500 if tier == 'quick' else 10000):
        out.append(_random(rnd))
    return out


def nontrivial(stim, trace):
    hdr = trace['hdr']['blocks']
    burst_changed, puts = set(), set()
    for e in trace['ev']:
        if e['ev'] == 'put':
            puts.add(e['s'])
        elif e['ev'] == 'eval' and e['changed']:
            burst_changed.add(e['c'])
        elif e['ev'] == 'idle':
            if len(burst_changed) >= 2 and puts:
                for c in burst_changed:
                    direct = {r['x'] for r in hdr[c - 1]['ins'] if not r['c']}
                    if not direct & puts:
                        return True
            burst_changed, puts = set(), set()
    return False


def signature(stim, trace, why):
    if 'invariant' in why:
        return f"inv:{why['invariant']}"
    e = why.get('event') or {}
    kind = ''
    if e.get('ev') == 'eval' and 0 < e.get('c', 0) <= len(trace['hdr']['blocks']):
        kind = trace['hdr']['blocks'][e['c'] - 1]['k']
    return f"reject:{e.get('ev')}:{kind}"
