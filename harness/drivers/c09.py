"""C09 - the first error stops the simulation and is the one that gets reported."""
from __future__ import annotations

import random

from .. import lifecommon
from . import c08

PROP = 'C09'
TRACE_SPEC = 'LifecycleTrace'
RULE = ('stimulus = (composition of blocks with 1..3 error sources of different kinds: failing event '
        'handler (hit directly, through a block that swallows the exception, or from inside the '
        'simulation task), failing calc_output, failing synchronous initialisation, failing main task, '
        'abort(), shutdown(), control events, failing / returning supporting task, SIGTERM, and the '
        'non-fatal kinds: unknown event type, missing parameter, failing init_async / stop / '
        'stop_async) at chosen instants incl. the same instant and loop step, API run() or '
        'run_forever(), abort before start); distinct = SHA-1 of canonical JSON; non-trivial = at least '
        'two error sources fired')
SHARDS = {'quick': 4, 'thorough': 8}
execute = lifecommon.execute


def models(tier, seed):
    return [dict(name='MC_Lifecycle 2 blocks (FirstWins, NeverReadyAgain)', spec='MC_Lifecycle',
                 cfg='MC_Lifecycle.cfg')]


def _scenario(rnd):
    """hand-shaped compositions for orderings that random composition rarely hits"""
    api = rnd.choice(['run', 'forever'])
    t = rnd.choice([0, 1, 5, 9])
    y = rnd.randint(0, 3)
    kind = rnd.choice(['same_round', 'swallowed', 'swallowed_inside', 'two_aborts', 'handler_then_abort',
                       'nonfatal_then_fatal', 'early_init_fails'])
    if kind == 'early_init_fails':
        # an external event makes a block run its synchronous initialisation early, while another
        # block's asynchronous routine is still pending; the routine fails (for good or only this
        # once), the sender catches the exception: the simulation must not come up all the same
        blocks = [{'kind': 'ia', 'idur': rnd.choice([4, 6]), 'itmo': 12},
                  {'kind': rnd.choice(['plain', 'pplain']), 'fault': rnd.choice(['init_regular', 'init_regular_once'])},
                  {'kind': rnd.choice(['plain', 'slowstop', 'timer'])}]
        actions = [{'t': rnd.choice([0, 1, 2]), 'yields': rnd.randint(1, 3), 'op': 'ext', 'dest': 2,
                    'shape': {'value': 2}},
                   {'t': 3, 'yields': 0, 'op': 'ext', 'dest': 2, 'shape': {'value': 3}}]
    elif kind == 'same_round':
        # a stop request and a failing calc_output in one evaluation round of the simulator
        # (the evaluation order within a round is up to the simulator: several of each kind)
        blocks = [{'kind': 'cb', 'trigger': 666, 'ctrl': rnd.choice(['shutdown', 'shutdown', 'abort'])}]
        rest = [{'kind': 'cb', 'trigger': 666, 'src': 1, 'ctrl': 'shutdown'},
                {'kind': 'cb', 'trigger': 666, 'src': 1, 'fault': 'eval'},
                {'kind': 'cb', 'trigger': 666, 'src': 1, 'fault': 'eval'},
                {'kind': rnd.choice(['plain', 'slowstop', 'repeat'])}]
        rnd.shuffle(rest)
        blocks += rest
        actions = [{'t': t, 'yields': y, 'op': 'hit', 'dest': 1}]
    elif kind == 'swallowed':
        blocks = [{'kind': 'plain', 'fault': 'handler', 'hexc': rnd.choice(['boom', 'invalid'])}, {'kind': 'catcher', 'to': 1}]
        actions = [{'t': t, 'yields': y, 'op': 'hit', 'dest': 2},
                   {'t': t + 2, 'yields': 0, 'op': 'ext', 'dest': 2, 'shape': {'value': 1}}]
    elif kind == 'swallowed_inside':
        # the failing handler is reached from inside the simulation task, a block in between
        # catches the exception
        blocks = [{'kind': 'plain', 'fault': 'handler', 'hexc': rnd.choice(['boom', 'invalid'])}, {'kind': 'catcher', 'to': 1},
                  {'kind': 'cb', 'trigger': -1, 'to': 2}]
        actions = [{'t': t, 'yields': y, 'op': 'hit', 'dest': 3},
                   {'t': t + 2, 'yields': 0, 'op': 'ext', 'dest': 2, 'shape': {'value': 1}}]
    elif kind == 'two_aborts':
        blocks = c08.rand_blocks(rnd, fault=False)
        actions = [{'t': t, 'yields': y, 'op': 'abort', 'code': 903},
                   {'t': t, 'yields': y + rnd.randint(0, 1), 'op': 'abort', 'code': 904}]
    elif kind == 'handler_then_abort':
        blocks = [{'kind': 'plain', 'fault': 'handler', 'hexc': rnd.choice(['boom', 'invalid'])}, {'kind': rnd.choice(['slowstop', 'oa', 'plain']), 'slowstop': 3}]
        actions = [{'t': t, 'yields': y, 'op': 'hit', 'dest': 1},
                   {'t': t, 'yields': y, 'op': rnd.choice(['abort', 'shutdown']), 'code': 905}]
        if rnd.random() < 0.5:
            actions.reverse()
    else:
        blocks = [{'kind': 'input'}, {'kind': 'plain', 'fault': rnd.choice(['handler', None])},
                  {'kind': 'ia', 'idur': 2, 'itmo': 8, 'fault': rnd.choice(['init_async', None])},
                  {'kind': 'plain'}]
        actions = [{'t': 0, 'yields': 2, 'op': 'extbad', 'dest': 1, 'how': 'unknown'},
                   {'t': 3, 'yields': 0, 'op': 'extbad', 'dest': 1, 'how': 'novalue'},
                   {'t': 4, 'yields': 0, 'op': 'ext', 'dest': 4, 'shape': {'value': 3}},
                   {'t': 5, 'yields': 0, 'op': 'hit', 'dest': 2},
                   {'t': 6, 'yields': 0, 'op': 'extbad', 'dest': 1, 'how': 'unknown'}]
    actions.sort(key=lambda a: (a['t'], a.get('yields', 0)))
    return {'check': 'C09', 'api': api, 'blocks': blocks, 'actions': actions, 'pre_abort': False,
            'linger': rnd.choice([4, 20])}


def stimuli(tier, seed, ctx):
    rnd = random.Random(seed)
    out = []
    for _ in range(500 if tier == 'quick' else 8000):
        out.append(_scenario(rnd))
    for _ in range(500 if tier == 'quick' else 8000):
        s = c08.rand_stim(rnd, 'C09')
        # add a second / third error source
        extra = []
        for _ in range(rnd.randint(0, 2)):
            t = rnd.choice([0, 1, 3, 5, 9])
            c = c08.rand_cause(rnd, s['blocks'], s['api'])
            if c:
                c['t'] = t
                extra.append(c)
        acts = s['actions'] + extra
        acts.sort(key=lambda a: (a['t'], a.get('yields', 0)))
        for k, a in enumerate(acts):
            if a['op'] in ('support_return', 'support_fail'):
                acts = acts[:k + 1]
                break
        s['actions'] = acts
        s['pre_abort'] = rnd.random() < 0.08
        out.append(s)
    return out


def nontrivial(stim, trace):
    n = sum(1 for e in trace['ev'] if e['ev'] in ('abort', 'supfail') or (e['ev'] == 'fault' and e['fatal']))
    return n >= 3       # (every run ends with the harness's own abort calls: shutdown + late abort)


signature = c08.signature
