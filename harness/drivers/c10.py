"""C10 - a circuit that cannot settle is stopped with an error; one that settles is not."""
from __future__ import annotations

import random

from .. import simcommon
from .c01 import _s, _c, signature  # noqa: F401

PROP = 'C10'
TRACE_SPEC = 'SimTrace'
RULE = ('stimulus = (network over Not/Xor/identity/And/Or incl. combinational loops and feedback '
        'through on_output events, or acyclic network with many reconvergent paths; bursts of '
        'external events); distinct = SHA-1 of canonical JSON; non-trivial = cyclic network, or '
        'acyclic one in which some block is reached along >= 2 paths')
SHARDS = {'quick': 6, 'thorough': 8}
execute = simcommon.execute


def models(tier, seed):
    ms = [dict(name='MC_Sim cyclic topologies + feedback, 2x2', spec='MC_Sim', cfg='MC_Sim_cyc.cfg'),
          dict(name='MC_Sim acyclic 2x2 (NoFalseAlarm, select_blk)', spec='MC_Sim', cfg='MC_Sim.cfg')]
    if tier == 'thorough':
        ms.append(dict(name='MC_Sim acyclic 2x3 (NoFalseAlarm)', spec='MC_Sim', cfg='MC_Sim_3.cfg',
                       timeout=1800))
    return ms


def _cyclic(rnd):
    ns = rnd.randint(1, 2)
    nc = rnd.randint(1, 5)
    blocks = [_s(f'i{i + 1}', rnd.randint(0, 1)) for i in range(ns)]
    n = ns + nc
    for j in range(nc):
        # identity = a one-input Or (a FuncBlock passing an UNDEF input through is an
        # output-calculation error, not an instability)
        k = rnd.choice(['not', 'xor', 'buf', 'and', 'or'])
        cnt = 1 if k in ('not', 'buf') else rnd.randint(1, 3)
        if k == 'buf':
            k = 'or'
        ins = [{'t': 'name', 'x': rnd.randint(1, n)} for _ in range(cnt)]
        fb = [rnd.randint(1, ns)] if rnd.random() < 0.25 else []
        blocks.append(_c(f'c{j + 1}', k, ins, 0, 0, fb))
    bursts = [[(rnd.randint(1, ns), 'put', rnd.randint(0, 1)) for _ in range(rnd.choice([1, 1, 2]))]
              for _ in range(rnd.randint(1, 6))]
    return {'blocks': blocks, 'bursts': bursts}


def _dag(rnd):
    """acyclic networks with reconvergent fan-out: ladders of 2-input gates"""
    ns = rnd.randint(1, 3)
    nc = rnd.randint(3, 12)
    blocks = [_s(f'i{i + 1}', rnd.randint(0, 1)) for i in range(ns)]
    span = rnd.choice([1, 2, 3, 6])
    for j in range(nc):
        idx = ns + j + 1
        lo = max(1, idx - span - 1)
        k = rnd.choice(['xor', 'xor', 'and', 'or', 'not', 'id'])
        cnt = 1 if k in ('not', 'id') else rnd.randint(2, 3)
        ins = [{'t': rnd.choice(['blk', 'name']), 'x': rnd.randint(lo, idx - 1)} for _ in range(cnt)]
        if rnd.random() < 0.08:
            # a block fed by constants only / by nothing: evaluated once, at the start
            ins = [{'t': 'const', 'x': rnd.randint(0, 1)} for _ in range(cnt)] if rnd.random() < 0.6 or k in ('not', 'id') else []
        blocks.append(_c(f'c{j + 1}', k, ins))
    if rnd.random() < 0.35:
        # a source that is connected to no combinational block and only forwards its value by an
        # event to another source; toggled many times (the evaluation counter must start from
        # zero in every round)
        blocks.append(_s(f'i{len(blocks) + 1}', 0))
        blocks[-1]['fwd'] = rnd.randint(1, ns)
        extra = len(blocks)
    else:
        extra = None
    if ns > 1 and rnd.random() < 0.3 and (extra is None or blocks[extra - 1]['fwd'] != 1):
        # an on_output event of a source fails non-fatally (unknown event type): the caller gets
        # the error, the simulation continues and must still settle consistently
        blocks[0]['bad'] = 2
    order = list(range(1, len(blocks) + 1))
    rnd.shuffle(order)
    bursts = [[(rnd.randint(1, ns), 'put', rnd.randint(0, 1)) for _ in range(rnd.choice([1, 2, 3]))]
              for _ in range(rnd.randint(3, 10))]
    if extra:
        bursts += [[(extra, 'put', k % 2)] for k in range(rnd.randint(8, 40))]
        rnd.shuffle(bursts)
    return {'blocks': blocks, 'bursts': bursts, 'order': order}


def stimuli(tier, seed, ctx):
    rnd = random.Random(seed)
    out = []
    for _ in range(500 if tier == 'quick' else 8000):
        out.append(_cyclic(rnd))
    for _ in range(400 if tier == 'quick' else 8000):
        out.append(_dag(rnd))
    return out


def nontrivial(stim, trace):
    h = trace['hdr']
    if not h['acyclic']:
        return True
    hdr = h['blocks']
    memo = {}

    def paths(c):
        if hdr[c - 1]['s']:
            return 1
        if c not in memo:
            memo[c] = sum(paths(r['x']) for r in hdr[c - 1]['ins'] if not r['c'])
        return memo[c]
    return any(paths(i + 1) >= 2 for i, b in enumerate(hdr) if not b['s'])
