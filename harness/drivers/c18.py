"""C18 - Repeat re-sends the latest event at the configured pace and count."""
from __future__ import annotations

import asyncio
import json
import random
import zlib

from .. import vt

PROP = 'C18'
TRACE_SPEC = 'RepeatTrace'
RULE = ('stimulus = (chain of 1..3 Repeat blocks, explicit or created by Event(..., repeat=, count=), '
        'intervals on a 0.25 s grid given as numbers or strings, counts None/0/1/2/3, matching or '
        'mismatching event types) + arrival pattern of external events (matching / other types, extra '
        'data items) + stop instant; patterns come from TLC behaviours of MC_Repeat and a seeded '
        'generator; one trace per Repeat block; distinct = SHA-1 of canonical JSON of (stimulus, block); '
        'non-trivial = at least one repetition was sent')
SHARDS = {'quick': 4, 'thorough': 8}
TICK = 0.25
NONE = -1


def models(tier, seed):
    return [dict(name='MC_Repeat', spec='MC_Repeat', cfg='MC_Repeat.cfg', coverage=True),
            dict(name='export', spec='MC_Repeat', cfg='MC_Repeat_export.cfg',
                 simulate='num=%d' % (30 if tier == 'quick' else 300), depth=16, seed=seed % 100000)]


def _from_export(rec, rnd):
    blocks = [dict(rec['c1'], implicit=False, etype='ev', rep=rnd.randint(0, 2)),
              dict(rec['c2'], implicit=False, etype='ev', rep=rnd.randint(0, 2))]
    script, stop_at = [], None
    for h in rec['hist']:
        if h['op'] == 'ext':
            script.append({'t': h['t'], 'm': bool(h['m']), 'tag': h['tag'], 'val': h['tag'],
                           'extra': rnd.choice([0, 0, 1, 2])})
        elif h['op'] == 'stall':
            script.append({'t': h['t'], 'stall': h['tag']})
        else:
            stop_at = h['t']
    if stop_at is None:
        stop_at = rec['now'] + rnd.randint(0, 3)
    return {'blocks': blocks, 'script': script, 'stop_at': stop_at, 'tail': 6}


def _random(rnd):
    nb = rnd.choice([1, 1, 2, 2, 3])
    blocks = []
    for k in range(nb):
        blocks.append({'interval': rnd.choice([1, 2, 3, 4, 6]), 'count': rnd.choice([NONE, NONE, 0, 1, 2, 3]),
                       'implicit': k == 0 and rnd.random() < 0.35, 'etype': 'ev' if rnd.random() < 0.9 else 'ev2',
                       'rep': rnd.randint(0, 2),
                       # stop_timeout=0: no asynchronous clean-up, the block must stop re-sending all the same
                       'st0': rnd.random() < 0.3})
    horizon = rnd.randint(4, 20)
    script = [{'t': rnd.randint(0, horizon), 'm': rnd.random() < 0.8, 'tag': rnd.randint(1, 5),
               'val': rnd.randint(0, 3), 'extra': rnd.choice([0, 0, 1, 2]),
               'nosrc': rnd.random() < 0.2} for _ in range(rnd.randint(1, 6))]
    if rnd.random() < 0.35:      # the loop is kept busy for a while (longer than an interval, maybe)
        script.append({'t': rnd.randint(0, horizon), 'stall': rnd.choice([1, 2, 3, 5, 8])})
    script.sort(key=lambda e: e['t'])
    return {'blocks': blocks, 'script': script, 'stop_at': rnd.randint(2, horizon + 6), 'tail': 8}


def stimuli(tier, seed, ctx):
    rnd = random.Random(seed)
    out, seen = [], set()
    for p in ctx['export'].printed:
        if p and p[0] == 'EXPORT' and p[1] not in seen:
            seen.add(p[1])
            out.append(_from_export(json.loads(p[1]), rnd))
    lim = 400 if tier == 'quick' else 8000
    if len(out) > lim:
        out = rnd.sample(out, lim)
    for _ in range(500 if tier == 'quick' else 12000):
        out.append(_random(rnd))
    return out


def _interval(ticks, rep):
    secs = ticks * TICK
    if rep == 0:
        return secs
    if rep == 1:
        return f'{secs}s'
    return f'0m{secs}s'


def execute(stim):
    import edzed
    blocks = stim['blocks']
    nb = len(blocks)
    recs = []           # receptions: dict(seq, t, dest, etype, data, stack, outs)
    st = {'loop': None, 't0': 0.0, 'stack': [], 'reps': {}, 'names': {}}

    def tick(t):
        x = (t - st['t0']) / TICK
        r = round(x)
        if abs(x - r) > 1e-6:
            raise RuntimeError(f'machinery: time {t} is off the tick grid')
        return r

    def srccode(src):
        if isinstance(src, str) and src.startswith('_ext_'):
            return 9
        return st['names'].get(src, -9)

    def proj(data):
        other = {k: v for k, v in data.items() if k not in ('source', 'orig_source', 'repeat', 'tag', 'value')}
        x = zlib.crc32(repr(sorted(other.items())).encode()) % 1000 if other else 0
        tag, val = data.get('tag', 0), data.get('value', 0)
        ok = lambda v: v if isinstance(v, int) and not isinstance(v, bool) and abs(v) < 10 ** 6 else -9
        return {'tag': ok(tag), 'val': ok(val), 'x': x}

    orig_event = edzed.SBlock.event

    def wrapped(self, etype_, /, **data):
        code = st['names'].get(self.name)
        if code is None or code == 8:
            return orig_event(self, etype_, **data)
        outs = {c: b.output for c, b in st['reps'].items()}
        rec = {'seq': len(recs), 't': tick(st['loop'].time()), 'dest': code, 'etype': etype_,
               'data': dict(data), 'inside': list(st['stack']), 'outs_at': outs, 'out_after': None,
               'exc': None}
        recs.append(rec)
        st['stack'].append(code)
        try:
            return orig_event(self, etype_, **data)
        except BaseException as err:
            rec['exc'] = type(err).__name__
            raise
        finally:
            st['stack'].pop()
            if code in st['reps']:
                rec['out_after'] = st['reps'][code].output

    class Probe(edzed.SBlock):
        def init_regular(self):
            self.set_output(None)

        def _event(self, etype, data):
            return None

    info = {'error': None, 'stop_t': None, 'end_t': None}

    def factory(loop, clock):
        async def main():
            circuit = edzed.get_circuit()
            probe = Probe('probe')
            st['names']['probe'] = 0
            dest = probe
            src = None
            for k in range(nb, 0, -1):          # build the chain from its end
                b = blocks[k - 1]
                cnt = None if b['count'] == NONE else b['count']
                # the event type the next block (or the probe) is sent
                out_etype = blocks[k]['etype'] if k < nb else 'ev'
                if b['implicit']:
                    ev = edzed.Event(dest, out_etype, repeat=_interval(b['interval'], b['rep']), count=cnt)
                    blk = ev._dest
                    src = edzed.Input('src', initdef=0, on_every_output=ev)
                    st['names']['src'] = 8
                else:
                    blk = edzed.Repeat(f'r{k}', dest=dest, etype=out_etype,
                                       interval=_interval(b['interval'], b['rep']), count=cnt,
                                       **({'stop_timeout': 0} if b.get('st0') else {}))
                st['names'][blk.name] = k
                st['reps'][k] = blk
                dest = blk
            edzed.Not('keepalive').connect(probe)
            st['loop'], st['t0'] = loop, loop.time()
            task = asyncio.create_task(circuit.run_forever())
            try:
                await circuit.wait_init()
            except Exception as err:
                info['error'] = repr(err)[:200]
            first = st['reps'][1]
            # the event type block 1 repeats is the one it forwards (Repeat has one etype)
            for op in stim['script']:
                if op['t'] > stim['stop_at'] or circuit.error is not None or task.done():
                    break
                delay = st['t0'] + op['t'] * TICK - loop.time()
                if delay > 0:
                    await asyncio.sleep(delay)
                if circuit.error is not None or task.done():
                    break
                if 'stall' in op:
                    # let everything that is runnable now run first (the Repeat tasks take what
                    # was queued and start their timeouts), then keep the loop busy
                    for _ in range(4):
                        await asyncio.sleep(0)
                    if circuit.error is not None or task.done():
                        break
                    recs.append({'seq': len(recs), 't': tick(loop.time()), 'dest': -1, 'stall': op['stall'],
                                 'inside': [], 'data': {}})
                    loop.advance(op['stall'] * TICK)
                    continue
                data = {'tag': op['tag']}
                if op['extra']:
                    data['xtra'] = op['extra']
                    if op['extra'] == 2:
                        data['more'] = 'm'
                try:
                    if src is not None:
                        if op['m']:
                            edzed.ExtEvent(src).send(op['val'])
                        else:
                            edzed.ExtEvent(first, 'othertype').send(op['val'], **data)
                    else:
                        et = (blocks[1]['etype'] if nb > 1 else 'ev') if op['m'] else 'othertype'
                        if op.get('nosrc'):
                            first.event(et, value=op['val'], **data)    # an event without a 'source' item
                        else:
                            edzed.ExtEvent(first, et).send(op['val'], **data)
                except Exception:
                    pass        # the failure is visible in the reception record and Circuit.error
            if circuit.error is None and not task.done():
                delay = st['t0'] + stim['stop_at'] * TICK - loop.time()
                if delay > 0:
                    await asyncio.sleep(delay)
            if circuit.error is not None:
                info['error'] = repr(circuit.error)[:300]
            if not task.done():
                try:
                    await circuit.shutdown()
                except BaseException:
                    pass
            try:
                await task
            except BaseException:
                pass
            info['stop_t'] = tick(loop.time())
            info['stop_seq'] = len(recs)
            await asyncio.sleep(stim['tail'] * TICK)
            info['end_t'] = tick(loop.time())
        return main()

    edzed.SBlock.event = wrapped
    try:
        vt.run(factory)
    finally:
        edzed.SBlock.event = orig_event

    # one trace per Repeat block
    ok = lambda v: v if isinstance(v, int) and not isinstance(v, bool) and abs(v) < 10 ** 6 else -9

    def sent_rec(r):
        d = r['data']
        return dict(proj(d), rep=ok(d.get('repeat', -9)), src=srccode(d.get('source')),
                    orig=srccode(d.get('orig_source')))
    traces = []
    for k in range(1, nb + 1):
        b = blocks[k - 1]
        my_etype = blocks[k]['etype'] if k < nb else 'ev'      # the type block k repeats
        dcode = k + 1 if k < nb else 0
        lines = []
        stop_done = False
        for r in recs:
            if not stop_done and r['seq'] >= info['stop_seq']:
                lines.append({'ev': 'stop', 't': info['stop_t']})
                stop_done = True
            if r['dest'] == -1:
                lines.append({'ev': 'stall', 't': r['t'], 'k': r['stall']})
            elif r['dest'] == k:
                fwd = [sent_rec(q) for q in recs if q['dest'] == dcode and q['seq'] > r['seq']
                       and k in q['inside'] and _within(recs, r, q, k)]
                d = r['data']
                lines.append({'ev': 'recv', 't': r['t'], 'm': r['etype'] == my_etype,
                              'd': dict(proj(d), src=srccode(d.get('source'))), 'fwd': fwd,
                              'out': ok(r['out_after']), 'exc': r['exc'] or ''})
            elif r['dest'] == dcode and k not in r['inside'] and srccode(r['data'].get('source')) == k:
                lines.append({'ev': 'rep', 't': r['t'], 'f': sent_rec(r), 'out': ok(r['outs_at'].get(k))})
        if not stop_done:
            lines.append({'ev': 'stop', 't': info['stop_t']})
        if info['error']:
            lines.append({'ev': 'error', 'what': info['error']})
        lines.append({'ev': 'end', 't': info['end_t']})
        traces.append({'hdr': {'interval': b['interval'], 'count': b['count'], 'me': k, 'nb': nb},
                       'ev': lines})
    # the harness validates one trace per execution: concatenating is not possible, so the
    # blocks of a chain are returned as a list and flattened by main (see MULTI)
    return traces


def _within(recs, outer, inner, k):
    """inner was received while the handler of reception `outer` (at block k) was running"""
    # the handler of `outer` is the innermost open reception at k when `inner` arrives
    last = None
    for r in recs:
        if r['seq'] >= inner['seq']:
            break
        if r['dest'] == k:
            last = r
    return last is outer


MULTI = True


def nontrivial(stim, trace):
    return any(e['ev'] == 'rep' for e in trace['ev'])


def signature(stim, trace, why):
    if 'invariant' in why:
        return f"inv:{why['invariant']}"
    e = why.get('event') or {}
    chain = 'chain' if trace['hdr'].get('nb', 1) > 1 else 'single'
    return f"reject:{e.get('ev')}:{chain}:me={trace['hdr'].get('me')}"
