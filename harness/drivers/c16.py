"""C16 - event filters form an ordered pipeline that can edit or veto an event."""
from __future__ import annotations

import itertools
import random

from .. import rt

PROP = 'C16'
TRACE_SPEC = 'FiltersTrace'
RULE = ('stimulus = (pipeline of <=3 filter specs, initial control blocks, sends before and after '
        'start with control-block changes in between); distinct = SHA-1 of canonical JSON; '
        'non-trivial = pipeline has >= 2 filters or a DataEdit chain of >= 2 operations')

UNDEF = -1000
CODES = {-1000: 'UNDEF', -1001: None, -1002: '', -1003: (), 901: 'x', 902: (1,), 800: 'src',
         # control block outputs that are mappings (a truthy and a falsy one)
         903: {'z': 9}, -1004: {}}
KEYS = ['a', 'b', 'c']


def models(tier, seed):
    return [dict(name='MC_Filters', spec='MC_Filters', cfg='MC_Filters.cfg')]


def to_py(code):
    import edzed
    if code == UNDEF:
        return edzed.UNDEF
    if code in CODES:
        return CODES[code]
    return code


def to_code(x):
    import edzed
    if x is edzed.UNDEF:
        return UNDEF
    if isinstance(x, bool):
        return int(x)
    if isinstance(x, int) and -1000 < x < 800:
        return x
    for c, v in CODES.items():
        if c != UNDEF and type(v) is type(x) and v == x:
            return c
    return -9999


# ---------- stimulus generation ----------
def _rand_op(rnd, keys):
    k = rnd.choice(['add', 'setdefault', 'copy', 'rename', 'delete', 'permit', 'modify', 'add_output'])
    if k in ('add', 'setdefault'):
        return {'k': k, 'kv': [[rnd.choice(keys), rnd.randint(3, 9)] for _ in range(rnd.randint(1, 2))]}
    if k in ('copy', 'rename'):
        return {'k': k, 'src': rnd.choice(keys), 'dst': rnd.choice(keys)}
    if k in ('delete', 'permit'):
        return {'k': k, 'keys': rnd.sample(keys, rnd.randint(0, len(keys)))}
    if k == 'modify':
        return {'k': k, 'key': rnd.choice(keys), 'f': rnd.choice(['inc', 'inc', 'del', 'rej', 'rejpos'])}
    return {'k': k, 'key': rnd.choice(keys), 'blk': rnd.randint(1, 2)}


def _rand_filter(rnd, numeric=False):
    k = rnd.choice(['const', 'edit', 'edit', 'edit', 'edge', 'nfu', 'delta', 'ifoutput', 'ifnotinit'])
    if k == 'const':
        return {'k': k, 'r': rnd.choice(['true', 'truthy', 'one', 'tuple1', 'false', 'none', 'zero', 'fzero', 'empty',
                                         'etuple', 'elist'])}
    if k == 'edit':
        # (with a Delta filter in the pipeline the edits leave 'value' alone: Delta is
        # documented for numeric values only)
        keys = KEYS if numeric else KEYS + ['source', 'value', 'previous']
        return {'k': k, 'ops': [_rand_op(rnd, keys) for _ in range(rnd.randint(0, 4))]}
    if k == 'edge':
        return {'k': k, 'rise': rnd.random() < .5, 'fall': rnd.random() < .5,
                'urise': rnd.choice([-1, 0, 1]), 'ufall': rnd.random() < .5}
    if k == 'delta':
        return {'k': k, 'd': rnd.randint(0, 3)}
    if k == 'ifoutput':
        return {'k': k, 'blk': rnd.randint(1, 2)}
    if k == 'ifnotinit':
        return {'k': k, 'blk': 3}
    return {'k': k}


def _rand_filter_edit(rnd):
    return {'k': 'edit', 'ops': [_rand_op(rnd, KEYS) for _ in range(rnd.randint(0, 4))]}


def _rand_data(rnd, numeric=False):
    d = {}
    for key in KEYS:
        if rnd.random() < .6:
            d[key] = rnd.choice([1, 2])
    vals = [-2, -1, 0, 1, 2, 3] if numeric else [-1001, 0, 1, 5, 901, -1002]
    if rnd.random() < .9:
        d['value'] = rnd.choice(vals)
    if rnd.random() < .9:
        d['previous'] = rnd.choice(vals + [UNDEF, UNDEF])
    return d


def _script(rnd, n, numeric):
    evs = []
    for _ in range(n):
        if rnd.random() < .2:
            evs.append({'ev': 'ctl', 'blk': rnd.randint(1, 2),
                        'out': rnd.choice([0, 1, 5, 3] if numeric else [-1001, 0, 1, 5, 901, 903, -1004])})
        else:
            evs.append({'ev': 'send', 'data': _rand_data(rnd, numeric)})
    return evs


def _stim(filters, pre, post, ctl0=(1, 0)):
    return {'filters': filters, 'ctl0': list(ctl0), 'pre': pre, 'post': post}


def stimuli(tier, seed, ctx):
    rnd = random.Random(seed)
    out = []
    # (a) Edge: all flag combinations x all (previous, value) pairs
    prevs = [UNDEF, -1001, 0, 1, 5, 901]
    vals = [-1001, 0, 1, 5, 901, -1002]
    for rise, fall, urise, ufall in itertools.product([False, True], [False, True], [-1, 0, 1], [False, True]):
        f = {'k': 'edge', 'rise': rise, 'fall': fall, 'urise': urise, 'ufall': ufall}
        sends = [{'ev': 'send', 'data': {'previous': p, 'value': v}} for p in prevs for v in vals]
        out.append(_stim([f], [], sends))
    # not_from_undef
    out.append(_stim([{'k': 'nfu'}], [], [{'ev': 'send', 'data': d} for d in (
        {'previous': UNDEF, 'value': 1}, {'previous': 0, 'value': 1}, {'value': 1},
        {'previous': -1001, 'value': 0}, {'previous': 5, 'value': UNDEF + 1})]))
    # (b) Delta: numeric sequences
    if tier == 'thorough':
        for d in range(4):
            for seq in itertools.product(range(-2, 3), repeat=4):
                out.append(_stim([{'k': 'delta', 'd': d}], [],
                                 [{'ev': 'send', 'data': {'value': v}} for v in seq]))
    for _ in range(60 if tier == 'quick' else 500):
        out.append(_stim([{'k': 'delta', 'd': rnd.randint(0, 5)}], [],
                         [{'ev': 'send', 'data': {'value': rnd.randint(-6, 6)}} for _ in range(10)]))
    # (c) DataEdit chains x all input dicts over {a,b,c}
    dicts = []
    for r in range(4):
        for ks in itertools.combinations(KEYS, r):
            for vs in itertools.product([1, 2], repeat=r):
                dicts.append(dict(zip(ks, vs)))
    for _ in range(150 if tier == 'quick' else 4000):
        ops = [_rand_op(rnd, KEYS) for _ in range(rnd.randint(1, 4))]
        out.append(_stim([{'k': 'edit', 'ops': ops}], [], [{'ev': 'send', 'data': d} for d in dicts]))
    # (d) pipelines of <= 3 filters, control blocks changing, sends during initialisation
    for _ in range(400 if tier == 'quick' else 8000):
        fs = [_rand_filter(rnd) for _ in range(rnd.randint(1, 3))]
        numeric = any(f['k'] == 'delta' for f in fs)
        if numeric:
            fs = [f if f['k'] != 'edit' else _rand_filter_edit(rnd) for f in fs]
        pre = _script(rnd, rnd.randint(0, 4), numeric) if any(f['k'] == 'ifnotinit' for f in fs) else []
        out.append(_stim(fs, pre, _script(rnd, rnd.randint(3, 10), numeric),
                         # (Delta is documented for numeric values only: no non-numeric control outputs then)
                         (rnd.choice([0, 1, 5] if numeric else [0, 1, 5, 903, -1004]),
                          rnd.choice([0, 2, 3] if numeric else [0, -1001, 901, 903]))))
    return out


# ---------- execution on the real library ----------
def _mk_filter(f, edzed):
    k = f['k']
    if k == 'const':
        val = {'true': True, 'truthy': 'yes', 'one': 1, 'tuple1': (0,), 'false': False, 'none': None,
               # any other false result vetoes the event as well
               'zero': 0, 'fzero': 0.0, 'empty': '', 'etuple': (), 'elist': []}[f['r']]
        return lambda data: val
    if k == 'edge':
        kw = {'rise': f['rise'], 'fall': f['fall'], 'u_fall': f['ufall']}
        if f['urise'] != -1:
            kw['u_rise'] = bool(f['urise'])
        return edzed.Edge(**kw)
    if k == 'nfu':
        return edzed.not_from_undef
    if k == 'delta':
        return edzed.Delta(f['d'])
    if k == 'ifoutput':
        return edzed.IfOutput(f'ctl{f["blk"]}')
    if k == 'ifnotinit':
        cls = getattr(edzed, 'IfNotIitialized', None) or getattr(edzed, 'NotIfInitialized')
        return cls('ctl3')
    assert k == 'edit'
    de = edzed.DataEdit
    first = True
    for op in f['ops']:
        o = op['k']
        if o in ('add', 'setdefault'):
            # duplicate keys in one call are impossible in Python: later pair wins for add,
            # the first pair wins for setdefault (as in the TLA+ left-to-right definition)
            kw = {}
            for key, val in op['kv']:
                if o == 'add' or key not in kw:
                    kw[key] = to_py(val)
            de = getattr(de, o)(**kw)
        elif o in ('copy', 'rename'):
            de = getattr(de, o)(op['src'], op['dst'])
        elif o in ('delete', 'permit'):
            de = getattr(de, o)(*op['keys'])
        elif o == 'modify':
            fn = {'inc': lambda v: v + 1 if isinstance(v, int) else v,
                  'del': lambda v: edzed.DataEdit.DELETE,
                  'rej': lambda v: edzed.DataEdit.REJECT,
                  'rejpos': lambda v: edzed.DataEdit.REJECT if v else v}[op['f']]
            de = de.modify(op['key'], fn)
        elif o == 'add_output':
            de = de.add_output(op['key'], f'ctl{op["blk"]}')
        first = False
    if first:
        de = edzed.DataEdit()
    if f.get('wrap'):
        # the result is handed on as a mutable mapping that is not a dict: it means the same
        import collections

        def wrapped(data, _de=de, _w=f['wrap']):
            res = _de(data)
            if not isinstance(res, dict):
                return res
            return collections.UserDict(res) if _w == 'userdict' else collections.ChainMap({}, res)
        wrapped.__name__ = 'wrapped_dataedit'
        return wrapped
    return de


def _fix_kv(filters):
    """setdefault with a repeated key: keep the first pair only (same meaning, expressible in Python)."""
    for f in filters:
        if f['k'] == 'edit':
            for op in f['ops']:
                if op['k'] == 'setdefault':
                    seen, kv = set(), []
                    for key, val in op['kv']:
                        if key not in seen:
                            seen.add(key)
                            kv.append([key, val])
                    op['kv'] = kv
    return filters


def execute(stim):
    import edzed
    filters = _fix_kv([dict(f) for f in stim['filters']])
    log = []
    got = []

    class Dest(edzed.SBlock):
        def init_regular(self):
            self.set_output(None)

        def _event(self, etype, data):
            got.append({k: to_code(v) for k, v in data.items()})
            return 'handled'

    class Src(edzed.SBlock):
        def init_regular(self):
            self.set_output(None)
            if stim['pre']:
                observe_ctl()
            run_script(stim['pre'], self)
            # make sure the late control block gets initialised
            if not ctl[3].is_initialized():
                ctl[3].event('put', value=7)
                log.append({'ev': 'ctl', 'blk': 3, 'out': 7, 'init': True})

    ctl = {}
    holder = {}

    def observe_ctl():
        for i in (1, 2, 3):
            log.append({'ev': 'ctl', 'blk': i, 'out': to_code(ctl[i].output),
                        'init': ctl[i].is_initialized()})

    def run_script(evs, src):
        for e in evs:
            if e['ev'] == 'ctl':
                blk = ctl[e['blk']]
                blk.event('put', value=to_py(e['out']))
                log.append({'ev': 'ctl', 'blk': e['blk'], 'out': to_code(blk.output),
                            'init': blk.is_initialized()})
            else:
                data = {k: to_py(v) for k, v in e['data'].items()}
                del got[:]
                try:
                    ret = holder['event'].send(src, **data)
                    ret = 'ok' if ret is True else ('rej' if ret is False else 'badret')
                except (KeyError, TypeError):
                    ret = 'err'
                log.append({'ev': 'send', 'data': e['data'], 'ret': ret, 'n': len(got),
                            'got': got[0] if got else {}})

    def build(circuit):
        src = Src('src')
        ctl[1] = edzed.Input('ctl1', initdef=to_py(stim['ctl0'][0]))
        ctl[2] = edzed.Input('ctl2', initdef=to_py(stim['ctl0'][1]))
        ctl[3] = edzed.Input('ctl3')
        Dest('dest')
        holder['event'] = edzed.Event('dest', 'ev', efilter=[_mk_filter(f, edzed) for f in filters])
        edzed.Not('keepalive').connect(ctl[1])
        return src

    async def script(circuit, src, loop, clock):
        if circuit.error is not None:
            log.append({'ev': 'start_failed', 'err': type(circuit.error).__name__})
            return
        observe_ctl()
        run_script(stim['post'], src)
        await rt.settle(2)
        if circuit.error is not None:
            log.append({'ev': 'circuit_error', 'err': type(circuit.error).__name__})
    rt.run_circuit(build, script)
    hdr = {'filters': filters,
           'ctl0': [{'out': stim['ctl0'][0], 'init': True}, {'out': stim['ctl0'][1], 'init': True},
                    {'out': UNDEF, 'init': False}]}
    return {'hdr': hdr, 'ev': log}


def nontrivial(stim, trace):
    fs = stim['filters']
    return len(fs) >= 2 or any(f['k'] == 'edit' and len(f['ops']) >= 2 for f in fs)


def signature(stim, trace, why):
    e = why.get('event') or {}
    kinds = '+'.join(sorted({f['k'] for f in stim['filters']}))
    return f"reject:{e.get('ev')}:{kinds}"
