"""C07 - TimeDate and TimeSpan outputs follow the wall clock."""
from __future__ import annotations

import asyncio
import datetime as dt
import random

from .. import vt

PROP = 'C07'
TRACE_SPEC = 'CronTrace'
RULE = ('stimulus = (1..4 TimeDate / TimeSpan blocks in local and UTC mode sharing the two cron '
        'services, random times / dates / weekdays / spans incl. wrapping ranges, microsecond endpoints, '
        'empty and unset items; start instant (random, just before midnight of Dec 31 / Feb 28 / Feb 29 / '
        'month ends, or a few ms before a boundary); reconfig events at instants a few ms before a boundary '
        'of the same or another block followed by a busy event loop (0 / 3 / 10 / 20 ms); forward clock '
        'jumps (90 s .. 13 h) and a final backward jump; 3 .. 50 virtual hours) + samples 1 s before, 60 ms '
        'and 1 s after every boundary and at random moments; distinct = SHA-1 of canonical JSON; '
        'non-trivial = the run crossed a boundary of every configured block')
SHARDS = {'quick': 4, 'thorough': 8}
TZ = 7200                      # local time = UTC + 2 h
EPS_US = 30000                 # "a few milliseconds" + the busy-loop latencies used below
MONTH_DAYS = [0, 31, 28, 31, 30, 31, 30, 31, 31, 30, 31, 30, 31]


def models(tier, seed):
    return [dict(name='MC_Cron (toy day, reload recalculates)', spec='MC_Cron', cfg='MC_Cron_ok.cfg'),
            dict(name='MC_Cron reload does not recalculate (sharpness)', spec='MC_Cron', cfg='MC_Cron_race.cfg',
                 expect_violation='OutputCorrect'),
            dict(name='MC_Cron reset with no alarms fails (sharpness)', spec='MC_Cron', cfg='MC_Cron_empty.cfg',
                 expect_violation='JumpNeverKills'),
            dict(name='MC_Cron no registered block, clock jumps', spec='MC_Cron', cfg='MC_Cron_emptyok.cfg')]


# ------------------------------------------------------------------ configuration
def _tod(rnd):
    us = rnd.choice([0, 0, 0, 500000, 250000, 1])
    return [rnd.randrange(24), rnd.randrange(60), rnd.choice([0, 0, 30, rnd.randrange(60)]), us]


def _secs(t):
    return t[0] * 3600 + t[1] * 60 + t[2] + t[3] / 1e6


def _rand_times(rnd, pin=None):
    """0..2 ranges whose endpoints are at least 5 s apart (pin = an endpoint that must be present)"""
    for _ in range(100):
        n = rnd.choice([0, 1, 1, 2])
        pts = [_tod(rnd) for _ in range(2 * n)]
        if pin is not None:
            if not pts:
                pts = [pin, _tod(rnd)]
            else:
                pts[rnd.randrange(len(pts))] = pin
        ss = sorted(_secs(p) for p in pts)
        if all(b - a >= 5 for a, b in zip(ss, ss[1:])) and (len(ss) < 2 or ss[0] + 86400 - ss[-1] >= 5):
            return [[pts[2 * i], pts[2 * i + 1]] for i in range(len(pts) // 2)]
    return []


def _rand_dates(rnd, around):
    res = []
    for _ in range(rnd.choice([0, 1, 1, 2])):
        a = around + dt.timedelta(days=rnd.randint(-3, 3))
        b = a + dt.timedelta(days=rnd.choice([0, 1, 2, 40, -5, 300]))
        res.append([[a.month, a.day], [b.month, b.day]])
    return res


def _rand_td(rnd, around, pin=None):
    c = {'ht': rnd.random() < 0.8 or pin is not None, 'hd': rnd.random() < 0.3, 'hw': rnd.random() < 0.3}
    c['times'] = _rand_times(rnd, pin) if c['ht'] else []
    c['dates'] = _rand_dates(rnd, around) if c['hd'] else []
    c['weekdays'] = sorted(rnd.sample(range(1, 8), rnd.randint(0, 5))) if c['hw'] else []
    return c


def _rand_ts(rnd, start, past=False):
    span = []
    for _ in range(rnd.choice([0, 1, 1, 2])):
        if past:
            a = start - dt.timedelta(days=rnd.randint(2, 400), seconds=rnd.randint(0, 80000))
            b = a + dt.timedelta(seconds=rnd.randint(10, 86400))
        else:
            a = start + dt.timedelta(seconds=rnd.randint(-90000, 120000))
            b = a + dt.timedelta(seconds=rnd.choice([20, 600, 4000, 90000, -300]))
        span.append([_t7(a), _t7(b)])
    return {'span': span}


def _t7(d):
    return [d.year, d.month, d.day, d.hour, d.minute, d.second, d.microsecond]


def _start(rnd):
    r = rnd.random()
    if r < 0.35:
        y, mo, d = rnd.choice([(2023, 12, 31), (2024, 2, 28), (2024, 2, 29), (2023, 2, 28), (2024, 3, 31),
                               (2024, 12, 31), (2025, 6, 30)])
        # shortly before local or UTC midnight
        base = dt.datetime(y, mo, d, 23, 59, 0) - dt.timedelta(seconds=rnd.choice([0, TZ]))
        return base - dt.timedelta(seconds=rnd.choice([0, 30, 600]))
    return dt.datetime(rnd.choice([2023, 2024, 2025]), rnd.randint(1, 12), rnd.randint(1, 28),
                       rnd.randrange(24), rnd.randrange(60), rnd.randrange(60))


def _stim(rnd, tier):
    start = _start(rnd)                      # UTC
    kind = rnd.choice(['day', 'day', 'race', 'race', 'startrace', 'jump', 'jump', 'empty', 'cascade',
                       'sametod', 'close'])
    nb = rnd.randint(1, 4)
    blocks, actions = [], []
    horizon = rnd.choice([3, 8, 26, 50]) * 3600
    pin_abs = None
    if kind in ('race', 'startrace', 'cascade'):
        # a boundary B of block 1 shortly after `when`
        utc1 = rnd.random() < 0.5
        when = 0 if kind == 'startrace' else rnd.choice([5, 600, 4000])
        if kind == 'cascade':
            when = rnd.choice([30, 600])
        k_ms = rnd.choice([1, 2, 4, 6, 9])
        b_abs = start + dt.timedelta(seconds=when, milliseconds=k_ms)
        b_clock = b_abs if utc1 else b_abs + dt.timedelta(seconds=TZ)
        pin = [b_clock.hour, b_clock.minute, b_clock.second, b_clock.microsecond]
        blocks.append({'kind': 'td', 'utc': utc1, 'cfg': _rand_td(rnd, start, pin)})
        pin_abs = when + k_ms / 1000
        horizon = max(horizon, 7200)
        if kind == 'cascade':
            # block 2 shares the boundary with block 1, and the output event of block 1 at that
            # very boundary reconfigures block 2 (to "nothing configured")
            blocks[0]['cascade'] = 2
            blocks.append({'kind': 'td', 'utc': utc1, 'cfg': _rand_td(rnd, start, pin)})
            nb = max(nb, 2)
    if kind == 'sametod':
        # a TimeSpan whose end-points share the time of day (the cron keeps ONE registration per
        # block and time of day): a past start and a coming stop, or two ranges on different days
        utc = rnd.random() < 0.5
        shift = 0 if utc else TZ
        tt = start + dt.timedelta(seconds=shift + rnd.choice([30, 600, 4000]))
        days = rnd.choice([1, 1, 2, 7])
        if rnd.random() < 0.5:
            span = [[_t7(tt - dt.timedelta(days=days)), _t7(tt)]]
        else:
            span = [[_t7(tt - dt.timedelta(days=days)), _t7(tt - dt.timedelta(days=days) + dt.timedelta(seconds=50))],
                    [_t7(tt), _t7(tt + dt.timedelta(seconds=rnd.choice([20, 900])))]]
        blocks.append({'kind': 'ts', 'utc': utc, 'cfg': {'span': span}})
        horizon = max(horizon, 7200)
    if kind == 'close':
        # two boundaries of two blocks 1 ms (or of one block 2 us) apart; servicing the first one
        # takes longer than that (a slow synchronous output handler)
        utc = rnd.random() < 0.5
        shift = 0 if utc else TZ
        tt = start + dt.timedelta(seconds=shift + rnd.choice([30, 600, 4000]))

        def tod(d):
            return [d.hour, d.minute, d.second, d.microsecond]
        if rnd.random() < 0.6:
            t2 = tt + dt.timedelta(milliseconds=1)
            blocks.append({'kind': 'td', 'utc': utc, 'stall': 5, 'cfg': {
                'ht': True, 'hd': False, 'hw': False, 'dates': [], 'weekdays': [],
                'times': [[tod(tt), tod(tt + dt.timedelta(seconds=900))]]}})
            blocks.append({'kind': 'td', 'utc': utc, 'cfg': {
                'ht': True, 'hd': False, 'hw': False, 'dates': [], 'weekdays': [],
                'times': [[tod(t2), tod(t2 + dt.timedelta(seconds=300))]]}})
            nb = max(nb, 2)
        else:
            blocks.append({'kind': 'td', 'utc': utc, 'stall': rnd.choice([0, 5]), 'cfg': {
                'ht': True, 'hd': False, 'hw': False, 'dates': [], 'weekdays': [],
                'times': [[tod(tt), tod(tt + dt.timedelta(microseconds=2))]]}})
        horizon = max(horizon, 7200)
    while len(blocks) < nb:
        utc = rnd.random() < 0.5
        if kind == 'empty':
            blocks.append({'kind': 'ts', 'utc': utc, 'cfg': _rand_ts(rnd, start, past=True)})
        elif rnd.random() < 0.65:
            blocks.append({'kind': 'td', 'utc': utc, 'cfg': _rand_td(rnd, start)})
        else:
            blocks.append({'kind': 'ts', 'utc': utc, 'cfg': _rand_ts(rnd, start)})
    busy = rnd.choice([0, 3, 10, 20])
    if kind == 'race':
        x = rnd.randint(1, nb)
        newcfg = (_rand_td(rnd, start, None if x != 1 else blocks[0]['cfg']['times'][0][0] if blocks[0]['cfg']['times'] else None)
                  if blocks[x - 1]['kind'] == 'td' else _rand_ts(rnd, start))
        if x == 1:
            newcfg = dict(blocks[0]['cfg'])          # same boundaries, other weekdays / dates
            newcfg['hw'], newcfg['weekdays'] = True, [1, 2, 3, 4, 5, 6, 7]
        actions.append({'at': when, 'op': 'reconfig', 'b': x, 'cfg': newcfg, 'busy': busy})
    if kind == 'startrace':
        actions.append({'at': 0.0, 'op': 'busy', 'busy': busy})
    if kind in ('jump', 'empty'):
        t = rnd.choice([30, 1000, 5000])
        for _ in range(rnd.randint(1, 2)):
            actions.append({'at': t, 'op': 'jump', 'delta': rnd.choice([90, 400, 3700, 13 * 3600, 86400 + 5])})
            t += rnd.choice([4000, 9000])
        horizon = max(horizon, t + 8000)
        if rnd.random() < 0.5:
            actions.append({'at': horizon - 10, 'op': 'jump', 'delta': -rnd.choice([100, 3000, 40000])})
    if kind == 'day' and rnd.random() < 0.5:
        for _ in range(rnd.randint(1, 3)):
            x = rnd.randint(1, nb)
            newcfg = _rand_td(rnd, start) if blocks[x - 1]['kind'] == 'td' else _rand_ts(rnd, start)
            actions.append({'at': rnd.randint(1, horizon - 100), 'op': 'reconfig', 'b': x, 'cfg': newcfg,
                            'busy': rnd.choice([0, 0, 3])})
    return {'kind': kind, 'start': _t7(start), 'blocks': blocks, 'actions': actions, 'horizon': horizon,
            'pin': pin_abs, 'nrand': 12 if tier == 'quick' else 30, 'rseed': rnd.randrange(10 ** 9)}


def stimuli(tier, seed, ctx):
    rnd = random.Random(seed)
    return [_stim(rnd, tier) for _ in range(260 if tier == 'quick' else 4000)]


# ------------------------------------------------------------------ boundaries and samples
def _boundaries(stim):
    """loop offsets (s) at which the predicate of some block may change, within the horizon"""
    start = dt.datetime(*stim['start'])
    res = set()
    cfgs = [(b['kind'], b['utc'], b['cfg']) for b in stim['blocks']]
    for a in stim['actions']:
        if a['op'] == 'reconfig':
            blk = stim['blocks'][a['b'] - 1]
            cfgs.append((blk['kind'], blk['utc'], a['cfg']))
    days = int(stim['horizon'] // 86400) + 2
    for kind, utc, cfg in cfgs:
        shift = 0 if utc else TZ
        if kind == 'td':
            tods = [[0, 0, 0, 0]] + [p for r in cfg['times'] for p in r]
            first = (start + dt.timedelta(seconds=shift)).date() - dt.timedelta(days=1)
            for d in range(days + 1):
                day = first + dt.timedelta(days=d)
                for t in tods:
                    inst = dt.datetime(day.year, day.month, day.day, t[0], t[1], t[2], t[3]) - dt.timedelta(seconds=shift)
                    res.add((inst - start).total_seconds())
        else:
            for r in cfg['span']:
                for p in r:
                    res.add((dt.datetime(*p) - dt.timedelta(seconds=shift) - start).total_seconds())
    return sorted(x for x in res if 1.5 < x < stim['horizon'] - 2)


def execute(stim):
    import edzed
    rnd = random.Random(stim['rseed'])
    start = dt.datetime(*stim['start'])
    epoch = (start - dt.datetime(1970, 1, 1)).total_seconds()
    lines = []
    jumped = any(a['op'] == 'jump' for a in stim['actions'])
    bounds = _boundaries(stim)
    if len(bounds) > 60:
        bounds = sorted(rnd.sample(bounds, 60))
    samples = set()
    for x in bounds:
        samples.update([round(x - 1.0, 6), round(x + 0.06, 6), round(x + 1.0, 6)])
    for _ in range(stim['nrand']):
        samples.add(round(rnd.uniform(0.5, stim['horizon'] - 1), 3))
    if stim['pin'] is not None:
        samples.update([round(stim['pin'] + 0.06, 6), round(stim['pin'] + 1.0, 6), round(stim['pin'] + 30, 6)])
    for a in stim['actions']:
        if a['op'] == 'jump':
            samples.update([a['at'] + 3700 + k for k in (0, 60, 1900)])
    timeline = [(s, 1, {'op': 'sample'}) for s in samples] + [(a['at'], 0, a) for a in stim['actions']]
    timeline.sort(key=lambda x: (x[0], x[1]))

    def setup(clock):
        clock.epoch0 = epoch
        clock.tz_offset = TZ
        # every clock reading costs a little time, as on a real machine: without it the cron's
        # "woke up too early, try again" loop would spin forever at one virtual instant
        clock.read_cost = 2e-6

    def mk(i, b):
        c = b['cfg']
        if b['kind'] == 'td':
            kw = {}
            if b.get('cascade'):
                kw['on_output'] = edzed.Event(f"b{b['cascade']}", 'reconfig', efilter=edzed.not_from_undef)
            if b.get('stall'):
                kw['on_output'] = edzed.Event('stall', 'put', efilter=edzed.not_from_undef)
            return edzed.TimeDate(f'b{i}', utc=b['utc'], **_td_args(c), **kw)
        return edzed.TimeSpan(f'b{i}', utc=b['utc'], span=c['span'])

    def factory(loop, clock):
        async def main():
            circuit = edzed.get_circuit()
            ms = max([b.get('stall', 0) for b in stim['blocks']])
            if ms:
                class Stall(edzed.SBlock):
                    """a slow synchronous consumer of output events"""
                    def init_regular(self):
                        self.set_output(0)

                    def _event_put(self, **_data):
                        loop.advance(ms / 1000)
                Stall('stall')
            blks = [mk(i, b) for i, b in enumerate(stim['blocks'], 1)]
            edzed.Not('keepalive').connect(blks[0])
            t0 = loop.time()

            def wall(us_shift):
                tot = round(clock.time() * 1e6) + us_shift
                u = dt.datetime(1970, 1, 1) + dt.timedelta(microseconds=tot)
                loc = u + dt.timedelta(seconds=TZ)
                return u, loc

            known = [b.get_state() for b in blks]

            def cfg_of(i, state):
                if stim['blocks'][i]['kind'] == 'ts':
                    return {'span': state}
                return {'ht': state['times'] is not None, 'times': state['times'] or [],
                        'hd': state['dates'] is not None, 'dates': state['dates'] or [],
                        'hw': state['weekdays'] is not None, 'weekdays': state['weekdays'] or []}

            def sample():
                # a block may have been reconfigured by an event of another block
                for i, b in enumerate(blks):
                    st_ = b.get_state()
                    if st_ != known[i]:
                        known[i] = st_
                        lines.append({'ev': 'reconfig', 'b': i + 1, 'cfg': cfg_of(i, st_)})
                tri = [wall(-EPS_US), wall(0), wall(EPS_US)]
                rec = {'ev': 'sample', 'lt': round((loop.time() - t0) * 1000)}
                for name, idx in (('utc', 0), ('loc', 1)):
                    rec[name] = {'lo': _t7(tri[0][idx]), 'at': _t7(tri[1][idx]), 'hi': _t7(tri[2][idx]),
                                 'wlo': tri[0][idx].isoweekday(), 'wat': tri[1][idx].isoweekday(),
                                 'whi': tri[2][idx].isoweekday()}
                rec['outs'] = [1 if b.output is True else 0 if b.output is False else -1 for b in blks]
                lines.append(rec)

            task = asyncio.create_task(circuit.run_forever())
            try:
                await circuit.wait_init()
            except Exception:
                pass
            for at, _prio, a in timeline:
                if circuit.error is not None or task.done():
                    break
                delay = t0 + at - loop.time()
                if delay > 0:
                    await asyncio.sleep(delay)
                if circuit.error is not None or task.done():
                    break
                op = a['op']
                if op == 'sample':
                    sample()
                elif op == 'busy':
                    loop.advance(a['busy'] / 1000)
                elif op == 'reconfig':
                    blk = blks[a['b'] - 1]
                    kw = _td_args(a['cfg']) if stim['blocks'][a['b'] - 1]['kind'] == 'td' else {'span': a['cfg']['span']}
                    edzed.ExtEvent(blk, 'reconfig').send(**kw)
                    known[a['b'] - 1] = blk.get_state()
                    lines.append({'ev': 'reconfig', 'b': a['b'], 'cfg': a['cfg']})
                    if a.get('busy'):
                        loop.advance(a['busy'] / 1000)      # the event loop is busy: the cron task runs late
                elif op == 'jump':
                    clock.offset += a['delta']
                    lines.append({'ev': 'jump', 'lt': round((loop.time() - t0) * 1000), 'fwd': a['delta'] > 0})
            await asyncio.sleep(0.5)
            err = circuit.error is not None or task.done()
            lines.append({'ev': 'end', 'err': bool(err), 'what': repr(circuit.error)[:200]})
            try:
                await circuit.shutdown()
            except BaseException:
                pass
            try:
                await task
            except BaseException:
                pass
        return main()

    vt.run(factory, clock_setup=setup)
    hdr = {'blocks': [{'kind': b['kind'], 'utc': bool(b['utc']), 'cfg': b['cfg']} for b in stim['blocks']],
           'kind': stim['kind']}
    return {'hdr': hdr, 'ev': lines}


def _td_args(c):
    return {'times': c['times'] if c['ht'] else None, 'dates': c['dates'] if c['hd'] else None,
            'weekdays': c['weekdays'] if c['hw'] else None}


def nontrivial(stim, trace):
    outs = [set() for _ in stim['blocks']]
    for e in trace['ev']:
        if e['ev'] == 'sample':
            for i, o in enumerate(e['outs']):
                outs[i].add(o)
    return any(len(o) > 1 for o in outs)


def signature(stim, trace, why):
    e = why.get('event') or {}
    if e.get('ev') == 'end':
        return f"reject:end:{stim['kind']}:{(e.get('what') or '')[:40]}"
    return f"reject:{e.get('ev')}:{stim['kind']}"
