"""C14 - external events enter only a running circuit and are always marked as external."""
from __future__ import annotations

import random

from .. import lifecommon
from . import c08

PROP = 'C14'
TRACE_SPEC = 'LifecycleTrace'
RULE = ('stimulus = (composition of blocks incl. slow asynchronous clean-up and slow asynchronous '
        'initialisation, API run() / run_forever(), termination cause) + ExtEvent.send() attempts in every '
        'phase (before the task exists, task created but not yet run, initialising, running, in the very '
        'step of abort(), while cleaning up, after the stop) with data shapes {with / without value} x '
        "{no source, '_ext_'-prefixed, unprefixed, empty, underscore-prefixed, names of automatic blocks} "
        'x extra items; block names with / without a leading underscore and automatic names; distinct = '
        'SHA-1 of canonical JSON; non-trivial = a send outside the running phase or with a caller-supplied source')
SHARDS = {'quick': 4, 'thorough': 8}
execute = lifecommon.execute
SOURCES = [None, None, '_ext_foo', 'foo', '', '_ctrl', '_x', '_ext_', '_Input_0', 'ext_', '_', '__ext_x', '_EXT_a', 'b1']


def models(tier, seed):
    return [dict(name='MC_Lifecycle 2 blocks (ReadyOnlyWhileRunning)', spec='MC_Lifecycle', cfg='MC_Lifecycle.cfg')]


def _shape(rnd):
    sh = {}
    if rnd.random() < 0.8:
        sh['value'] = rnd.choice([1, 2, 3, 4, 5, None, 0, False, '', 0.0, [], 'UNDEF'])
        sh['vkw'] = rnd.random() < 0.3
    src = rnd.choice(SOURCES)
    if src is not None:
        sh['src'] = src
    if rnd.random() < 0.3:
        # a source given to the ExtEvent object itself: used unless send() gets one (even an empty one)
        sh['csrc'] = rnd.choice(['gateway', '_ext_panel', 'x'])
    if rnd.random() < 0.5:
        sh['items'] = {'a': rnd.randint(0, 9), 'tag': rnd.choice(['x', 'y'])}
        if rnd.random() < 0.3:
            # data items may have any name, also names of parameters of the methods they pass through
            sh['items'][rnd.choice(['etype', 'data', 'blk', 'args', 'kwargs'])] = 'q'
    return sh


def _stim(rnd):
    api = rnd.choice(['run', 'forever'])
    blocks = [{'kind': rnd.choice(['plain', 'plain', 'pplain', 'fdest']), 'sync': rnd.random() < 0.8},
              {'kind': rnd.choice(['slowstop', 'slowstop', 'oa', 'repeat']),
                                  'slowstop': rnd.choice([2, 4, 6]), 'tmo': 12, 'dur': 3, 'sd': True}]
    if rnd.random() < 0.6:
        blocks.append({'kind': 'ia', 'idur': rnd.choice([3, 5]), 'itmo': 8})
    if rnd.random() < 0.4:
        blocks.append({'kind': 'trig', 'ctrl': rnd.choice(['shutdown', 'abort']), 'ctor': rnd.random() < .5})
    dests = [i for i, b in enumerate(blocks, 1) if b['kind'] in ('plain', 'pplain', 'slowstop', 'fdest')]
    ext = lambda t, y=0: {'t': t, 'yields': y, 'op': 'ext', 'dest': rnd.choice(dests), 'shape': _shape(rnd)}
    actions = [ext(0, 0), ext(0, rnd.randint(1, 3)), ext(rnd.randint(1, 4)), ext(6), ext(8)]
    tstop = rnd.choice([2, 7, 9])
    causes = ['abort', 'abort', 'shutdown_bg', 'shutdown_bg', 'cbfault', 'cbfault']
    if api == 'run':
        causes += ['sigterm']
    trig = [i for i, b in enumerate(blocks, 1) if b['kind'] == 'trig']
    if trig:
        causes += ['ctrl']
    c = rnd.choice(causes)
    if c == 'cbfault':
        # the simulation ends because of an error raised inside the simulation task itself
        blocks.append({'kind': 'cb', 'trigger': 666, 'fault': 'eval'})
        actions.append({'t': tstop, 'yields': 1, 'op': 'hit', 'dest': len(blocks)})
    elif c == 'abort':
        actions.append({'t': tstop, 'yields': 1, 'op': 'abort', 'code': 906})
    elif c == 'shutdown_bg':
        actions.append({'t': tstop, 'yields': 1, 'op': 'shutdown_bg'})
    elif c == 'sigterm':
        actions.append({'t': tstop, 'yields': 1, 'op': 'sigterm'})
    else:
        actions.append({'t': tstop, 'yields': 1, 'op': 'hit', 'dest': trig[0], 'value': 7})
    # in the very step of the stop request, and while the clean-up is in progress
    actions += [ext(tstop, 0), ext(tstop, 1), ext(tstop, 2), ext(tstop + 1), ext(tstop + 2), ext(tstop + 5)]
    actions.sort(key=lambda a: (a['t'], a.get('yields', 0)))
    # keep the stop request before the sends of the same step
    actions.sort(key=lambda a: (a['t'], a.get('yields', 0), 0 if a['op'] != 'ext' else 1))
    if rnd.random() < 0.08:
        blocks.append({'kind': 'badref'})
    s = {'check': 'C14', 'api': api, 'blocks': blocks, 'actions': actions, 'pre_abort': False, 'linger': 24,
         'pre_finalize': rnd.random() < 0.3,
         'pre_ops': [{'dest': rnd.choice(dests), 'shape': _shape(rnd)}],
         'post_ops': [{'dest': rnd.choice(dests), 'shape': _shape(rnd)}]}
    if blocks[-1]['kind'] == 'badref':
        s['pre_finalize'] = False
    if rnd.random() < 0.3:
        s['names'] = rnd.sample(['ok', 'x1', '_x', '_ext_a', '__', '_1', 'ext_', 'Ext', '_ctrlx', 'a_b'], 4)
        s['autonames'] = rnd.sample(['Foo', 'Bar_1', 'extra', 'Ext', 'my_ext_'], 2)
    return s


def stimuli(tier, seed, ctx):
    rnd = random.Random(seed)
    return [_stim(rnd) for _ in range(800 if tier == 'quick' else 12000)]


def nontrivial(stim, trace):
    return any(e['ev'] == 'ext' and (e['outcome'] == 'invalid' or e['src'] != [-1]) for e in trace['ev'])


signature = c08.signature
