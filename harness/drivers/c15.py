"""C15 - the finalized circuit's connection data is complete, consistent and frozen."""
from __future__ import annotations

import asyncio
import collections
import random

from .. import vt

PROP = 'C15'
TRACE_SPEC = 'CircuitTrace'
RULE = ('stimulus = (construction script over <= 8 blocks mixing object / name / _not_ shortcut / '
        'Const / plain constant references, single inputs and groups of 0..3, events and filter '
        'control blocks by object or name; explicit finalize() or start; or one class of invalid '
        'reference); distinct = SHA-1 of canonical JSON; non-trivial = the script has a reference '
        'by name or a shortcut')
INVALID = ['unknown_name', 'foreign_block', 'event_to_cblock', 'filter_wrong_kind', 'not_unconnected',
           'not_two_inputs', 'override_group', 'override_empty_group', 'func_mismatch', 'duplicate_name', 'bad_shortcut',
           'connect_twice', 'unknown_event_dest', 'reserved_name', 'unknown_event_dest_ignored',
           # the same name referenced before by something that accepts any kind of block
           'event_to_cblock_after_ref', 'filter_wrong_kind_after_ref',
           # references by name created between an explicit finalize() and the start
           'late_unknown_event_dest', 'late_event_to_cblock',
           # a destination of the wrong kind given as a block object (refused at once)
           'event_to_cblock_object']


def models(tier, seed):
    return [dict(name='MC_Circuit all scripts over 3 blocks', spec='MC_Circuit', cfg='MC_Circuit.cfg'),
            dict(name='MC_Circuit single-pass deviation (sharpness)', spec='MC_Circuit',
                 cfg='MC_Circuit_1pass.cfg', expect_violation='MatchesDeclaration')]


def _rand_script(rnd):
    n = rnd.randint(1, 8)
    blocks = []
    is_s = [True] + [rnd.random() < 0.35 for _ in range(n - 1)]
    for i in range(1, n + 1):
        if is_s[i - 1]:
            blocks.append({'kind': 's', 'ins': []})
            continue
        # keep the network acyclic (no UNDEF propagation, no instability): references go to
        # earlier blocks or to any sequential block (also ones created later: by name)
        targets = [j for j in range(1, n + 1) if j < i or is_s[j - 1]]

        def ref():
            x = rnd.random()
            if x < 0.15:
                return {'t': 'const', 'x': rnd.randint(0, 5), 'style': rnd.choice(['Const', 'plain'])}
            tgt = rnd.choice(targets)
            if x < 0.4:
                return {'t': 'inv', 'x': tgt, 'style': 'name'}
            return {'t': 'blk', 'x': tgt, 'style': rnd.choice(['obj', 'name'])}
        kind = rnd.choice(['not', 'gate', 'gate', 'func', 'override'])
        if kind == 'not':
            ins = [{'iname': '_', 'single': False, 'refs': [ref()]}]
        elif kind == 'gate':
            k = rnd.randint(0, 3)
            ins = [{'iname': '_', 'single': False, 'refs': [ref() for _ in range(k)]}] if k else []
        elif kind == 'override':
            ins = [{'iname': 'input', 'single': True, 'refs': [ref()]},
                   {'iname': 'override', 'single': True, 'refs': [ref()]}]
        else:   # FuncBlock: optional positional group, one single kw input, one kw group
            ins = []
            if rnd.random() < .5:
                ins.append({'iname': '_', 'single': False, 'refs': [ref() for _ in range(rnd.randint(1, 2))]})
            ins.append({'iname': 'a', 'single': True, 'refs': [ref()]})
            ins.append({'iname': 'g', 'single': False, 'refs': [ref() for _ in range(rnd.randint(0, 3))]})
        blocks.append({'kind': kind, 'ins': ins})
    sbl = [i for i, b in enumerate(blocks, 1) if b['kind'] == 's']
    events = [{'dest': rnd.choice(sbl), 'byname': rnd.random() < .6} for _ in range(rnd.randint(0, 3))]
    ctrls = [{'blk': rnd.choice(sbl), 'byname': rnd.random() < .6, 'inv': False,
              'k': rnd.choice(['add_output', 'ifoutput', 'ifnotinit'])} for _ in range(rnd.randint(0, 2))]
    for c in ctrls:
        # the control block may be an inverter known only by its '_not_NAME' shortcut
        if rnd.random() < 0.25:
            c.update(byname=True, inv=True, blk=rnd.randint(1, n), k=rnd.choice(['add_output', 'ifoutput']))
    if len(sbl) >= 2 and rnd.random() < 0.4:
        # one DataEdit adding the outputs of two blocks under the same key, the first one renamed
        # in between: two references held by one filter object
        a, b = rnd.sample(sbl, 2)
        ctrls.append({'blk': a, 'byname': rnd.random() < .7, 'inv': False, 'k': 'add_output', 'chain': 1})
        ctrls.append({'blk': b, 'byname': rnd.random() < .7, 'inv': False, 'k': 'add_output', 'chain': 2})
    return {'blocks': blocks, 'events': events, 'ctrls': ctrls}


def stimuli(tier, seed, ctx):
    rnd = random.Random(seed)
    out = []
    for _ in range(700 if tier == 'quick' else 12000):
        s = _rand_script(rnd)
        s['mode'] = rnd.choice(['finalize', 'start', 'finalize_then_start'])
        s['invalid'] = 'none'
        # what is missing at the first finalize(): 1 = an event destination, 2 = the source of an
        # inverter shortcut, 3 = both
        s['retry'] = rnd.choice([1, 2, 2, 3]) if rnd.random() < 0.2 else 0
        out.append(s)
    for inv in INVALID:
        for _ in range(3 if tier == 'quick' else 30):
            s = _rand_script(rnd)
            s['mode'] = rnd.choice(['finalize_then_start', 'start'])
            if inv.startswith('late_'):
                s['mode'] = 'finalize_then_start'
            s['invalid'] = inv
            out.append(s)
    return out


def _hdr(stim):
    script = []
    for b in stim['blocks']:
        script.append({'s': b['kind'] == 's', 'not': b['kind'] == 'not',
                       'ins': [{'single': i['single'],
                                'refs': [{'t': r['t'], 'x': r['x']} for r in i['refs']]} for i in b['ins']]})
    return {'script': script, 'events': [{'dest': e['dest']} for e in stim['events']],
            'ctrls': [{'blk': c['blk'], 'inv': bool(c.get('inv'))} for c in stim['ctrls']],
            'invalid': stim['invalid'],
            'mode': stim['mode']}


def execute(stim):
    import edzed
    n = len(stim['blocks'])
    odd_names = len(repr(stim['blocks'])) % 3 == 0

    def name(i):
        # (some scripts use names with an inner '_not_': 'b1_not_b2' next to 'b1' and 'b2')
        if odd_names and i >= 2:
            return f'b{i - 1}_not_b{i}'
        return f'b{i}'
    blks = {}
    events, ctrls = [], []
    lines = []
    inv = stim['invalid']
    state = {'failed': False}

    def mkref(r):
        if r['t'] == 'const':
            return edzed.Const(r['x']) if r['style'] == 'Const' else r['x']
        if r['t'] == 'inv':
            return '_not_' + name(r['x'])
        if r['style'] == 'obj' and r['x'] in blks:
            return blks[r['x']]
        return name(r['x'])

    def construct(circuit):
        for i, b in enumerate(stim['blocks'], 1):
            k = b['kind']
            if k == 's':
                blks[i] = edzed.Input(name(i), initdef=100 + i)
            elif k == 'not':
                blks[i] = edzed.Not(name(i))
            elif k == 'gate':
                blks[i] = rnd_gate(i)(name(i))
            elif k == 'override':
                blks[i] = edzed.Override(name(i))
            else:
                blks[i] = edzed.FuncBlock(name(i), func=lambda *a, **kw: 0)
        for i, b in enumerate(stim['blocks'], 1):
            if not b['ins']:
                continue
            args, kw = [], {}
            for inp in b['ins']:
                refs = [mkref(r) for r in inp['refs']]
                if inp['iname'] == '_':
                    args = refs
                elif inp['single']:
                    kw[inp['iname']] = refs[0]
                else:
                    # a group is any sequence that is not a string
                    # (iterators are deprecated as groups, but accepted)
                    form = [list, tuple, collections.deque, collections.UserList, iter][(i + 3 * len(refs)) % 5]
                    kw[inp['iname']] = form(refs)
            blks[i].connect(*args, **kw)
        probe_dest = edzed.Input('evsrc', initdef=0)
        for e in stim['events']:
            events.append(edzed.Event(name(e['dest']) if e['byname'] else blks[e['dest']], 'put'))
        for c in stim['ctrls']:
            tgt = name(c['blk']) if c['byname'] else blks[c['blk']]
            if c.get('inv'):
                tgt = '_not_' + name(c['blk'])
            if c.get('chain') == 1:
                ctrls.append(('add_output', edzed.DataEdit.add_output('k', tgt).rename('k', 'k0')))
            elif c.get('chain') == 2:
                ctrls.append(('add_output', ctrls[-1][1].add_output('k', tgt)))
            elif c['k'] == 'add_output':
                ctrls.append(('add_output', edzed.DataEdit.add_output('k', tgt)))
            elif c['k'] == 'ifoutput':
                ctrls.append(('ifoutput', edzed.IfOutput(tgt)))
            else:
                cls = getattr(edzed, 'IfNotIitialized', None) or getattr(edzed, 'NotIfInitialized')
                ctrls.append(('ifnotinit', cls(tgt)))
        blks['spare'] = edzed.And('spare')
        # ---- injected invalid item ----
        if inv == 'unknown_name':
            edzed.And('bad').connect(name(1), 'nosuchblock')
        elif inv == 'event_to_cblock_after_ref':
            edzed.Or('cdest').connect(name(1))
            edzed.IfOutput('cdest')
            events.append(edzed.Event('cdest', 'put'))
        elif inv == 'filter_wrong_kind_after_ref':
            edzed.Or('cdest').connect(name(1))
            edzed.DataEdit.add_output('x', 'cdest')
            cls = getattr(edzed, 'IfNotIitialized', None) or getattr(edzed, 'NotIfInitialized')
            cls('cdest')
        elif inv == 'event_to_cblock_object':
            events.append(edzed.Event(blks['spare'], 'put'))
        elif inv == 'event_to_cblock':
            edzed.Or('cdest').connect(name(1))
            blks[1]._output_events += (edzed.Event('cdest', 'put'),) if False else ()
            events.append(edzed.Event('cdest', 'put'))
        elif inv in ('unknown_event_dest', 'unknown_event_dest_ignored'):
            events.append(edzed.Event('nosuchdest', 'put'))
        if stim.get('retry'):
            # a destination that does not exist yet: the first finalize() must fail, after the
            # block was added a second finalize() must succeed and resolve everything
            if stim['retry'] in (1, 3, True):
                state['late_event'] = edzed.Event('late_dest', 'put')
            # ... and / or a shortcut to the inverter of a block that does not exist yet
            if stim['retry'] in (2, 3):
                state['late_user'] = edzed.And('late_user').connect('_not_late_src')
        elif inv == 'filter_wrong_kind':
            edzed.Or('cdest').connect(name(1))
            cls = getattr(edzed, 'IfNotIitialized', None) or getattr(edzed, 'NotIfInitialized')
            cls('cdest')
        elif inv == 'not_unconnected':
            edzed.Not('bad')
        elif inv == 'not_two_inputs':
            edzed.Not('bad').connect(name(1), name(1))
        elif inv == 'override_group':
            edzed.Override('bad').connect(input=[name(1)], override=name(1))
        elif inv == 'override_empty_group':
            edzed.Override('bad').connect(input=[], override=name(1))
        elif inv == 'func_mismatch':
            edzed.FuncBlock('bad', func=lambda a, b: 0).connect(name(1))
        elif inv == 'duplicate_name':
            edzed.And(name(1))
        elif inv == 'reserved_name':
            edzed.And('_mine')
        elif inv == 'bad_shortcut':
            edzed.And('bad').connect('_not__not_' + name(1))
        elif inv == 'connect_twice':
            edzed.And('bad').connect(name(1)).connect(name(1))

    def rnd_gate(i):
        return [edzed.And, edzed.Or, edzed.Xor][i % 3]

    def observe(circuit):
        ids = {name(i): i for i in range(1, n + 1)}
        ids.update({'_not_' + name(i): n + i for i in range(1, n + 1)})
        helper = {'spare', 'evsrc', 'late_dest', 'late_user', 'late_src', '_not_late_src'}
        exist, recs = [], []

        def enc(obj):
            if isinstance(obj, edzed.Const):
                return {'c': True, 'x': obj.output if isinstance(obj.output, int) else -9999}
            if isinstance(obj, edzed.Block):
                return {'c': False, 'x': ids.get(obj.name, -1)}
            return {'c': False, 'x': -2}        # unresolved (a name or a raw value)

        def enc_name(nm):
            if nm in ids:
                return {'c': False, 'x': ids[nm]}
            if nm.startswith('<Const '):
                try:
                    return {'c': True, 'x': int(nm[7:-1])}
                except ValueError:
                    pass
            return {'c': False, 'x': -3}
        for blk in circuit.getblocks():
            if blk.name in helper:
                continue
            bid = ids.get(blk.name, -1)
            exist.append(bid)
            rec = {'id': bid, 'ins': [], 'conf': [], 'sig': [], 'iconn': [], 'oconn': []}
            rec['oconn'] = sorted(ids.get(b.name, -1) for b in blk.oconnections if b.name not in helper)
            if isinstance(blk, edzed.CBlock):
                rec['iconn'] = sorted(ids.get(b.name, -1) for b in blk.iconnections)
                conf = blk.get_conf().get('inputs', {})
                sig = blk.input_signature() if blk.inputs else {}
                for iname, ival in blk.inputs.items():
                    single = not isinstance(ival, tuple)
                    rec['ins'].append({'single': single,
                                       'refs': [enc(ival)] if single else [enc(x) for x in ival]})
                    cval = conf.get(iname)
                    if cval is None:
                        rec['conf'].append({'single': single, 'refs': [{'c': False, 'x': -4}]})
                    else:
                        csingle = not isinstance(cval, tuple)
                        rec['conf'].append({'single': csingle,
                                            'refs': [enc_name(cval)] if csingle else [enc_name(x) for x in cval]})
                    sv = sig.get(iname, -5)
                    rec['sig'].append(-1 if sv is None else sv)
            recs.append(rec)
        dests = []
        for ev, spec in zip(events, stim['events']):
            try:
                dests.append(ids.get(ev.dest.name, -1))
            except Exception:
                dests.append(0)
        cres = []
        for (k, flt), spec in zip(ctrls, stim['ctrls']):
            try:
                res = flt({'value': 1})
            except BaseException:
                cres.append(0)      # not resolved (or not usable)
                continue
            tgt = blks[spec['blk']]
            bid = spec['blk']
            if spec.get('inv'):
                try:
                    tgt = circuit.findblock('_not_' + name(spec['blk']))
                    bid = n + spec['blk']
                except KeyError:
                    cres.append(-2)
                    continue
            if k == 'add_output':
                key = 'k0' if spec.get('chain') == 1 else 'k'
                cres.append(bid if res.get(key, 'missing') is tgt.output else -1)
            elif k == 'ifoutput':
                cres.append(bid if bool(res) == bool(tgt.output) else -1)
            else:
                cres.append(bid if bool(res) == (not tgt.is_initialized()) else -1)
        lines.append({'ev': 'final', 'exist': sorted(exist), 'blocks': recs, 'dests': dests, 'ctrls': cres})

    def frozen_checks(circuit):
        res = {}
        try:
            edzed.Input('late', initdef=0)
            res['add'] = 'accepted'
        except edzed.EdzedInvalidState:
            res['add'] = 'refused'
        try:
            blks['spare'].connect(name(1))
            res['connect'] = 'accepted'
        except edzed.EdzedInvalidState:
            res['connect'] = 'refused'
        try:
            circuit.set_persistent_data({})
            res['storage'] = 'accepted'
        except edzed.EdzedInvalidState:
            res['storage'] = 'refused'
        lines.append(dict(res, ev='frozen'))

    def factory(loop, clock):
        async def main():
            circuit = edzed.get_circuit()
            if inv == 'foreign_block':
                foreign = edzed.Input('foreign', initdef=0)
                edzed.reset_circuit()
                circuit = edzed.get_circuit()
            try:
                construct(circuit)
                if inv == 'foreign_block':
                    edzed.And('bad').connect(foreign)
            except Exception:
                state['failed'] = True
                return
            mode = stim['mode']
            if stim.get('retry'):
                try:
                    circuit.finalize()
                    first_failed = False
                except Exception:
                    first_failed = True
                try:
                    edzed.Input('late_dest', initdef=0)
                    src = edzed.Input('late_src', initdef=0)
                    circuit.finalize()
                    resolved = 'late_event' not in state or state['late_event'].dest.name == 'late_dest'
                    user = state.get('late_user')
                    inv_ = circuit.findblock('_not_late_src') if user else None
                    resolved = resolved and (user is None or isinstance(inv_, edzed.Not)
                                and set(inv_.iconnections) == {src} and inv_ in src.oconnections
                                and set(user.iconnections) == {inv_} and user in inv_.oconnections
                                and inv_.inputs.get('_') == (src,) and user.inputs.get('_') == (inv_,)
                                and len([b for b in circuit.getblocks() if b.name == '_not_late_src']) == 1)
                    if user is not None and resolved:
                        inv_.input_signature()      # (raises when the inverter is not connected)
                except Exception:
                    resolved = False
                lines.append({'ev': 'retry', 'first_failed': first_failed, 'resolved': bool(resolved)})
            if inv == 'unknown_event_dest_ignored':
                try:
                    circuit.finalize()      # fails; the caller ignores it and starts anyway
                except Exception:
                    pass
            if mode in ('finalize', 'finalize_then_start'):
                try:
                    circuit.finalize()
                except Exception:
                    state['failed'] = True
                    return
                if inv == 'none':
                    observe(circuit)
                    frozen_checks(circuit)
            late = None
            if mode == 'finalize_then_start':
                # events created after the explicit finalize(): resolved (and checked) at the start
                if inv == 'late_unknown_event_dest':
                    edzed.Event('nosuchdest_late', 'put')
                elif inv == 'late_event_to_cblock':
                    edzed.Event('spare', 'put')
                elif inv == 'none':
                    late = edzed.Event(name(1), 'put')
            if mode in ('start', 'finalize_then_start'):
                task = asyncio.create_task(circuit.run_forever())
                try:
                    await circuit.wait_init()
                except Exception:
                    state['failed'] = True
                if circuit.error is not None:
                    state['failed'] = True
                if not state['failed'] and inv == 'none':
                    if mode == 'start':
                        observe(circuit)
                    else:
                        lines.append({'ev': 'started'})
                    if late is not None:
                        try:
                            okl = late.dest is circuit.findblock(name(1))
                        except Exception:
                            okl = False
                        if not okl:
                            lines.append({'ev': 'late_event_unresolved'})
                    frozen_checks(circuit)
                try:
                    await circuit.shutdown()
                except BaseException:
                    pass
                try:
                    await task
                except BaseException:
                    pass
        return main()

    vt.run(factory)
    if inv != 'none':
        lines[:] = [{'ev': 'invalid', 'cls': inv, 'failed': state['failed']}]
    elif state['failed']:
        lines.append({'ev': 'unexpected_failure'})
    return {'hdr': _hdr(stim), 'ev': lines}


def nontrivial(stim, trace):
    for b in stim['blocks']:
        for i in b['ins']:
            for r in i['refs']:
                if r['t'] == 'inv' or r.get('style') == 'name':
                    return True
    return any(e['byname'] for e in stim['events'])


def signature(stim, trace, why):
    e = why.get('event') or {}
    if e.get('ev') == 'final':
        byname = any(x['byname'] for x in stim['events'] + stim['ctrls'])
        bad = [d for d in e.get('dests', []) if d == 0] or [c for c in e.get('ctrls', []) if c == 0]
        if bad and stim['mode'].startswith('finalize'):
            return 'reject:final:names-unresolved-after-explicit-finalize'
        return f"reject:final:{stim['mode']}"
    if e.get('ev') == 'invalid':
        return f"reject:invalid:{e.get('cls')}"
    return f"reject:{e.get('ev')}:{stim['mode']}"
