"""C06 - saved state always matches the last completed event and survives a restart."""
from __future__ import annotations

import asyncio
import copy
import random

from .. import vt

PROP = 'C06'
TRACE_SPEC = 'PersistTrace'
RULE = ('stimulus = (1..3 persistent blocks from Counter / Input / Timer / InputExp / TimeDate / TimeSpan / generated timed FSM '
        'with state data, sync_state on or off, some not persistent; history of external events on a '
        '0.25 s grid incl. rejected events, unknown event types and a failing handler; regular stop, stop '
        'after the handler error, or a failing start()) + restarts from the storage as it was after '
        'initialisation, after each event and after the stop, with the wall clock advanced by a delta '
        'shorter / longer than the remaining timer and expiration in {None, <=0, shorter, longer than the '
        'downtime}; stale and reserved keys in the storage; distinct = SHA-1 of canonical JSON; '
        'non-trivial = a restart with a pending timer or an expiration setting')
SHARDS = {'quick': 4, 'thorough': 8}
TICK = 0.25
NONE = -1
NOEXP = 9001
ABSENT = {'st': -9, 'due': NONE, 'sd': 0}
NONE_ST = 77                   # code of the state None (Input)
KINDS = ['counter', 'input', 'timer', 'inputexp', 'fsm', 'td', 'ts', 'gauge']
EVENTS = {'counter': ['inc', 'dec', 'reset', 'put'], 'input': ['put'], 'timer': ['start', 'stop', 'toggle'],
          'inputexp': ['put'], 'fsm': ['e1', 'e2', 'e3'], 'td': ['reconfig'], 'ts': ['reconfig'],
          # a block whose state also changes by its own activity (bump), not only in event handlers
          'gauge': ['put', 'bump', 'bump']}
# configurations of the TimeDate / TimeSpan blocks: the internal state is the configuration; they are
# chosen so that the corresponding output does not depend on the time of the (re)start
TD_MENU = [dict(weekdays='1234567'), dict(weekdays=''), dict(dates='Jan 1 - Dec 31'), dict(times='0:00-0:00'),
           dict(), dict(times='0:00-0:00', weekdays='')]
TD_OUT = [1, 0, 1, 1, 0, 0]
TS_MENU = [(), 'Jan 1 2000 0:00 - Dec 31 2099 0:00', 'Jan 1 2000 0:00 - Jan 2 2000 0:00',
           'Jan 1 2000 0:00 - Jan 2 2000 0:00, Jan 1 2001 0:00 - Dec 31 2099 0:00']
TS_OUT = [0, 1, 0, 1]


def models(tier, seed):
    return [dict(name='MC_Persist', spec='MC_Persist', cfg='MC_Persist.cfg'),
            dict(name='MC_Persist only the block that stopped the simulation is excluded (sharpness)',
                 spec='MC_Persist', cfg='MC_Persist_firstonly.cfg', expect_violation='NoWriteAfterHandlerError'),
            dict(name='MC_Persist failed block still saved (sharpness)', spec='MC_Persist',
                 cfg='MC_Persist_saveonerror.cfg', expect_violation='NoWriteAfterHandlerError')]


def stimuli(tier, seed, ctx):
    rnd = random.Random(seed)
    out = []
    for _ in range(260 if tier == 'quick' else 5000):
        n = rnd.randint(1, 3)
        blocks = [{'kind': rnd.choice(KINDS), 'persistent': rnd.random() < 0.85, 'sync': rnd.random() < 0.75}
                  for _ in range(n)]
        ops = []
        for _ in range(rnd.randint(1, 6)):
            b = rnd.randint(1, n)
            k = blocks[b - 1]['kind']
            r = rnd.random()
            if r < 0.08:
                ops.append({'t': rnd.randint(0, 14), 'b': b, 'e': 'nosuchevent', 'v': 0})
            elif r < 0.16 and k in ('counter',):
                ops.append({'t': rnd.randint(0, 14), 'b': b, 'e': 'put', 'v': 'bad'})      # handler fails
            elif r < 0.2 and k == 'fsm':
                ops.append({'t': rnd.randint(0, 14), 'b': b, 'e': 'boom', 'v': 0})        # fails after a state change
            else:
                ops.append({'t': rnd.randint(0, 14), 'b': b, 'e': rnd.choice(EVENTS[k]), 'v': rnd.randint(0, 5)})
        ops.sort(key=lambda o: o['t'])
        restarts = []
        for _ in range(rnd.randint(2, 6)):
            restarts.append({'src': rnd.randint(0, 99), 'delta': rnd.choice([1, 2, 5, 9, 20, 60]),
                             'exps': [rnd.choice([NOEXP, NOEXP, 0, -4, 3, 8, 40]) for _ in range(n)],
                             'nopers': rnd.random() < 0.12})
        out.append({'blocks': blocks, 'ops': ops, 'stop_at': rnd.randint(2, 18),
                    'fail_start': rnd.random() < 0.08, 'restarts': restarts,
                    # the storage holds entries of an earlier run; the simulation may be aborted in
                    # the first loop iteration after start(), before anything is initialised
                    'preseed': rnd.random() < 0.5, 'early_abort': rnd.random() < 0.12,
                    # a handler fails while the simulation is already stopping (stop requested,
                    # clean-up not yet run)
                    'late_fail': rnd.randint(1, n) if rnd.random() < 0.2 else 0,
                    # an event that reaches a block while the blocks are being stopped (sent by the
                    # stop_data of an output block), i.e. after the simulator's own final save
                    'stop_event': rnd.randint(1, n) if rnd.random() < 0.25 else 0,
                    # a regular stop while the circuit is still initialising (a slow asynchronous
                    # routine is pending), after events to the blocks restored from the storage
                    'init_stop': rnd.random() < 0.12})
    return out


def _mk(edzed, kind, name, probe, **kw):
    if kind == 'counter':
        return edzed.Counter(name, modulo=7, initdef=2, **kw)
    if kind == 'input':
        return edzed.Input(name, initdef=1, allowed=[0, 1, 2, 3, 4, 5, None], **kw)
    if kind == 'timer':
        return edzed.Timer(name, t_on=3 * TICK, t_off=5 * TICK, **kw)
    if kind == 'inputexp':
        return edzed.InputExp(name, duration=4 * TICK, expired=99, initdef=3, **kw)
    if kind == 'gauge':
        class Gauge(edzed.AddonPersistence, edzed.SBlock):
            def init_regular(self):
                if not self.is_initialized():       # (called even after a restored state)
                    self.set_output(1)

            def _event_put(self, *, value, **_data):
                self.set_output(value)

            def _restore_state(self, state):
                self.set_output(state)
        return Gauge(name, **kw)
    if kind == 'td':
        return edzed.TimeDate(name, **TD_MENU[0], **kw)
    if kind == 'ts':
        return edzed.TimeSpan(name, span=TS_MENU[0], **kw)

    class GenFSM(edzed.FSM):
        STATES = ['s1', 's2', 's3']
        TIMERS = {'s2': (3 * TICK, 'tmo'), 's3': (6 * TICK, edzed.Goto('s1'))}
        EVENTS = [('e1', ['s1'], 's2'), ('e2', None, 's1'), ('e3', ['s2'], 's2'), ('tmo', ['s2'], 's3'),
                  ('e5', None, 's3')]

        def _count(self):
            probe['entry'][name] = probe['entry'].get(name, 0) + 1
            self.sdata['n'] = self.sdata.get('n', 0) + 1
        enter_s1 = enter_s2 = _count

        def cond_e3(self):
            # a condition that keeps its own record in the state data: also a rejected event
            # is a handled event, and it has changed the internal state
            self.sdata['n'] = self.sdata.get('n', 0) + 1
            return self.sdata['n'] % 2 == 0

        def cond_tmo(self):
            # every other time the timed event is rejected: the FSM stays in s2 without a timer
            return self.sdata.get('n', 0) % 2 == 1

        def enter_s3(self):
            self._count()
            if edzed.fsm_event_data.get().get('boom'):
                # the handler fails after it has modified the internal state
                raise RuntimeError('scripted handler failure')
    return GenFSM(name, **kw)


def _menu_state(edzed, kind):
    if kind == 'td':
        return [edzed.TimeDate.parse(c.get('times'), c.get('dates'), c.get('weekdays')) for c in TD_MENU]
    return [edzed.TimeSpan.parse(c) for c in TS_MENU]


def _outcode(out, kind):
    if kind in ('timer', 'td', 'ts'):
        return {True: 1, False: 0}.get(out, -8) if isinstance(out, bool) else -8
    if kind == 'fsm':
        return {'s1': 1, 's2': 2, 's3': 3}.get(out, -8)
    if out is None and kind == 'input':
        return NONE_ST
    return out if isinstance(out, int) and not isinstance(out, bool) else -8


def _snap(edzed, blk, kind, wall0):
    try:
        st = blk.get_state()
    except Exception:
        return dict(ABSENT)
    return _enc(st, kind, wall0, edzed)


def _enc(st, kind, wall0, edzed=None):
    if kind in ('td', 'ts'):
        if edzed is None:
            import edzed
        menu = _menu_state(edzed, kind)
        return {'st': menu.index(st) + 1 if st in menu else -8, 'due': NONE, 'sd': 0}
    if kind in ('counter', 'input', 'gauge'):
        if st is None and kind == 'input':
            return {'st': NONE_ST, 'due': NONE, 'sd': 0}        # None is a state like any other
        return {'st': st if isinstance(st, int) and not isinstance(st, bool) else -8, 'due': NONE, 'sd': 0}
    state, exp, sdata = st
    names = {'timer': ['off', 'on'], 'inputexp': ['expired', 'valid'], 'fsm': ['s1', 's2', 's3']}[kind]
    due = NONE if exp is None else round((exp - wall0) / TICK)
    sd = sdata.get('input', 0) if kind == 'inputexp' else sdata.get('n', 0)
    return {'st': names.index(state) + 1 if state in names else -8, 'due': due,
            'sd': sd if isinstance(sd, int) else -8}


def _store(storage, blocks, kinds, wall0):
    res = []
    for blk, kind in zip(blocks, kinds):
        res.append(_enc(storage[blk.key], kind, wall0) if blk.key in storage else dict(ABSENT))
    return res


def execute(stim):
    import edzed
    conf = stim['blocks']
    n = len(conf)
    kinds = [c['kind'] for c in conf]
    WALL0 = vt.EPOCH0
    lines = []
    snaps = []          # (storage copy, wall tick, live outputs) per line
    class Storage(dict):
        """a back-end that stores copies (as shelve / a database would), not references"""
        def __setitem__(self, key, value):
            super().__setitem__(key, copy.deepcopy(value))

    storage = Storage()
    probe = {'entry': {}}
    state = {}

    class FailStart(edzed.SBlock):
        def start(self):
            raise RuntimeError('scripted start failure')

        def init_regular(self):
            self.set_output(0)

    def wtick(clock):
        x = (clock.time() - WALL0) / TICK
        return round(x)

    PRE = {'counter': 5, 'input': 4, 'gauge': 4, 'timer': ('off', None, {}), 'inputexp': ('expired', None, {}),
           'fsm': ('s1', None, {'n': 1}), 'td': _menu_state(edzed, 'td')[2], 'ts': _menu_state(edzed, 'ts')[1]}

    def factory(loop, clock):
        async def main():
            circuit = edzed.get_circuit()
            circuit.set_persistent_data(storage)
            blks = [_mk(edzed, c['kind'], f'b{i}', probe, persistent=c['persistent'], sync_state=c['sync'])
                    for i, c in enumerate(conf, 1)]
            state['keys'] = [b.key for b in blks]
            if stim.get('preseed'):
                for b, c in zip(blks, conf):
                    if c['persistent']:
                        storage[b.key] = PRE[c['kind']]
                storage['edzed-stop-time'] = WALL0 - 40 * TICK
            state['pre'] = _store(storage, blks, kinds, WALL0)
            state['pre_ts'] = -40 if stim.get('preseed') else NONE
            if stim['fail_start']:
                FailStart('zz_failing')
            edzed.Not('keepalive').connect(blks[0])
            init_stop = bool(stim.get('init_stop') and stim.get('preseed') and not stim.get('early_abort')
                             and not stim['fail_start'])
            if init_stop:
                async def slow_init():
                    await asyncio.sleep(6 * TICK)
                    return 1
                edzed.InitAsync('zz_slow', init_coro=[slow_init], init_timeout=20 * TICK, initdef=0)
            se = 0 if init_stop else (stim.get('stop_event') or 0)
            # (not after a failed start: "after every handled event the storage holds the state" and
            # "nothing is written if the start-up failed" contradict each other there)
            if se and kinds[se - 1] in ('counter', 'input', 'gauge') and not stim.get('early_abort') \
                    and not stim['fail_start']:
                edzed.OutputFunc('zz_final', func=lambda value: value, on_error=None, stop_data={'value': 3},
                                 on_success=edzed.Event(blks[se - 1], 'put'))
            else:
                se = 0
            live = lambda: [_snap(edzed, b, k, WALL0) for b, k in zip(blks, kinds)]
            outs = lambda: [repr(b.output) for b in blks]

            def rec(ev, **kw):
                lines.append(dict(ev=ev, t=wtick(clock), store=_store(storage, blks, kinds, WALL0),
                                  outc=[_outcode(b.output, k) for b, k in zip(blks, kinds)], **kw))
                snaps.append((copy.deepcopy(storage), wtick(clock), outs()))
            orig_event = edzed.SBlock.event
            flag = {'driver': False, 'depth': 0}

            def wrapped(self, etype, /, **data):
                top = flag['depth'] == 0 and not flag['driver'] and self in blks
                flag['depth'] += 1
                try:
                    return orig_event(self, etype, **data)
                finally:
                    flag['depth'] -= 1
                    if top and circuit.error is None and state.get('running'):
                        rec('fire', b=blks.index(self) + 1, live=live())
            edzed.SBlock.event = wrapped
            # AddonPersistence.event calls super().event: wrap the outermost entry point instead
            orig_pevent = edzed.AddonPersistence.event

            def pwrapped(self, etype, /, **data):
                top = flag['depth'] == 0 and not flag['driver'] and self in blks
                flag['depth'] += 1
                try:
                    return orig_pevent(self, etype, **data)
                finally:
                    flag['depth'] -= 1
                    if top and circuit.error is None and state.get('running'):
                        rec('fire', b=blks.index(self) + 1, live=live())
            edzed.SBlock.event = orig_event
            edzed.AddonPersistence.event = pwrapped
            try:
                t0 = loop.time()
                flag['driver'] = True
                task = asyncio.create_task(circuit.run_forever())
                if stim.get('early_abort'):
                    await asyncio.sleep(0)
                    circuit.abort(RuntimeError('early abort'))
                if init_stop:
                    await asyncio.sleep(TICK)
                    for blk, kind, c in zip(blks, kinds, conf):
                        if c['persistent'] and kind in ('counter', 'input', 'gauge') and blk.is_initialized():
                            try:
                                edzed.ExtEvent(blk, 'put').send(2)
                            except Exception:
                                pass
                    await asyncio.sleep(TICK)
                    flag['driver'] = False
                    before = live()
                    try:
                        await circuit.shutdown()
                    except BaseException:
                        pass
                    try:
                        await task
                    except BaseException:
                        pass
                    ts = storage.get('edzed-stop-time')
                    lines.append({'ev': 'stop', 't': wtick(clock), 'kind': 'init_stop',
                                  'store': _store(storage, blks, kinds, WALL0),
                                  'ts': NONE if ts is None else round((ts - WALL0) / TICK), 'live': before,
                                  'sev': 0, 'after': live()})
                    snaps.append((copy.deepcopy(storage), wtick(clock), outs()))
                    return
                try:
                    await circuit.wait_init()
                    ok = True
                except Exception:
                    ok = False
                flag['driver'] = False
                if not ok:
                    try:
                        await task
                    except BaseException:
                        pass
                    lines.append({'ev': 'stop', 't': wtick(clock), 'kind': 'failed_start',
                                  'store': _store(storage, blks, kinds, WALL0),
                                  'ts': NONE if 'edzed-stop-time' not in storage else round(
                                      (storage['edzed-stop-time'] - WALL0) / TICK),
                                  'live': [dict(ABSENT) for _ in blks], 'sev': 0,
                                  'after': [dict(ABSENT) for _ in blks]})
                    snaps.append((copy.deepcopy(storage), wtick(clock), outs()))
                    return
                state['running'] = True
                rec('init', live=live())
                for op in stim['ops']:
                    if op['t'] > stim['stop_at'] or circuit.error is not None:
                        break
                    delay = t0 + op['t'] * TICK - loop.time()
                    if delay > 0:
                        await asyncio.sleep(delay)
                    if circuit.error is not None:
                        break
                    blk = blks[op['b'] - 1]
                    if op['e'] == 'bump':
                        blk.set_output(10 + op['v'])        # a new reading: not an event
                        rec('self', b=op['b'], live=live())
                        continue
                    flag['driver'] = True
                    try:
                        if op['e'] == 'boom':
                            edzed.ExtEvent(blk, 'e5').send(boom=1)
                        elif op['e'] == 'reconfig':
                            k = kinds[op['b'] - 1]
                            if k == 'td':
                                edzed.ExtEvent(blk, 'reconfig').send(**TD_MENU[op['v'] % len(TD_MENU)])
                            else:
                                edzed.ExtEvent(blk, 'reconfig').send(span=TS_MENU[op['v'] % len(TS_MENU)])
                        elif op['e'] == 'put':
                            k_ = kinds[op['b'] - 1]
                            edzed.ExtEvent(blk, 'put').send(None if k_ == 'input' and op['v'] == 5 else op['v'])
                        else:
                            edzed.ExtEvent(blk, op['e']).send()
                        outcome = 'ok'
                    except edzed.EdzedUnknownEvent:
                        outcome = 'reported'
                    except Exception:
                        outcome = 'fatal' if circuit.error is not None else 'reported'
                    finally:
                        flag['driver'] = False
                    rec('event', b=op['b'], outcome=outcome, live=live())
                if circuit.error is None:
                    delay = t0 + stim['stop_at'] * TICK - loop.time()
                    if delay > 0:
                        await asyncio.sleep(delay)
                lf = stim.get('late_fail')
                if lf and circuit.error is None and kinds[lf - 1] in ('counter', 'fsm'):
                    # the stop request as made by shutdown(); an internal event still reaches a block
                    circuit.abort(asyncio.CancelledError('shutdown'))
                    rec('abort')
                    flag['driver'] = True
                    try:
                        if kinds[lf - 1] == 'counter':
                            blks[lf - 1].event('put', value='bad')
                        else:
                            blks[lf - 1].event('e5', boom=1)
                        outcome = 'ok'
                    except Exception:
                        outcome = 'fatal'
                    finally:
                        flag['driver'] = False
                    rec('event', b=lf, outcome=outcome, live=live())
                state['running'] = False
                before = live()
                try:
                    await circuit.shutdown()
                except BaseException:
                    pass
                try:
                    await task
                except BaseException:
                    pass
                ts = storage.get('edzed-stop-time')
                lines.append({'ev': 'stop', 't': wtick(clock), 'kind': 'regular',
                              'store': _store(storage, blks, kinds, WALL0),
                              'ts': NONE if ts is None else round((ts - WALL0) / TICK), 'live': before,
                              'sev': se, 'after': live()})
                snaps.append((copy.deepcopy(storage), wtick(clock), outs()))
            finally:
                edzed.AddonPersistence.event = orig_pevent
        return main()

    vt.run(factory)

    # ---- restarts from the recorded storages ----
    def restart(sto, exps, wall_tick, pers=True):
        probe['entry'] = {}
        res = {}

        def setup(clock):
            clock.epoch0 = WALL0 + wall_tick * TICK

        def factory2(loop, clock):
            async def main():
                circuit = edzed.get_circuit()
                circuit.set_persistent_data(sto)
                blks = [_mk(edzed, c['kind'], f'b{i}', probe, persistent=pers,
                            expiration=None if e == NOEXP else e * TICK)
                        for (i, c), e in zip(enumerate(conf, 1), exps)]
                edzed.Not('keepalive').connect(blks[0])
                task = asyncio.create_task(circuit.run_forever())
                await circuit.wait_init()
                res['snap'] = [_snap(edzed, b, k, WALL0) for b, k in zip(blks, kinds)]
                res['outs'] = [_outcode(b.output, k) for b, k in zip(blks, kinds)]
                res['entry'] = [probe['entry'].get(f'b{i}', 0) for i in range(1, n + 1)]
                res['keys'] = set(sto.keys())
                task.cancel()       # a crash: nothing is saved
                try:
                    await task
                except BaseException:
                    pass
            return main()
        vt.run(factory2, clock_setup=setup)
        return res

    nlines = len(lines)
    for r in stim['restarts']:
        src = r['src'] % nlines
        sto, wall, outs_then = snaps[src]
        nowr = wall + r['delta']
        s1 = Storage(copy.deepcopy(dict(sto)))
        s1['stale-key'] = 'x'
        s1['edzed-reserved-test'] = 1
        got = restart(s1, r['exps'], nowr, pers=not r.get('nopers'))
        fresh = restart(Storage(), [NOEXP] * n, nowr)
        ts = sto.get('edzed-stop-time')
        lines.append({'ev': 'restart', 't': lines[-1]['t'], 'src': src + 1, 'nowr': nowr, 'exps': r['exps'],
                      'restored': got['snap'], 'outs': got['outs'],
                      'entry': got['entry'], 'fresh': fresh['snap'], 'nopers': bool(r.get('nopers')),
                      'stale_removed': 'stale-key' not in got['keys'],
                      'reserved_kept': 'edzed-reserved-test' in got['keys']})
    hdr = {'blocks': [{'persistent': bool(c['persistent']), 'sync': bool(c['sync']), 'kind': c['kind']} for c in conf],
           'pre': state['pre'], 'pre_ts': state['pre_ts']}
    return {'hdr': hdr, 'ev': lines}


def nontrivial(stim, trace):
    for e in trace['ev']:
        if e['ev'] == 'restart' and (any(x != NOEXP for x in e['exps'])
                                     or any(s['due'] != NONE for s in e['restored'])):
            return True
    return False


def signature(stim, trace, why):
    e = why.get('event') or {}
    kinds = '+'.join(sorted({b['kind'] for b in stim['blocks']}))
    return f"reject:{e.get('ev')}:{e.get('outcome', e.get('kind', ''))}:{kinds}"
