"""C05 - after start-up every block has a valid output, taken from the documented sources."""
from __future__ import annotations

import asyncio
import collections.abc
import itertools
import random

from .. import vt

PROP = 'C05'
TRACE_SPEC = 'InitTrace'
RULE = ('stimulus = (1..4 probe blocks, each with: saved state that restores / restores without '
        'initialising / raises / is absent, asynchronous routine that completes (before or after its '
        'timeout) / raises / never ends with init_timeout 0 or positive, regular routine that sets the '
        'output or not, initdef present or not, an output event that initialises another block; a '
        'combinational block whose first evaluation may fail; optionally a block with asynchronous '
        'clean-up; creation order = every permutation for <= 3 blocks); distinct = SHA-1 of canonical '
        'JSON; non-trivial = at least two different sources were used or a block was initialised early by an event')
SHARDS = {'quick': 4, 'thorough': 8}
TICK = 0.25
TAG = {'restored': 1, 'async': 2, 'regular': 3, 'initdef': 4, 'ev': 5}


def models(tier, seed):
    ms = [dict(name='MC_Init all configurations of 2 blocks x both orders', spec='MC_Init', cfg='MC_Init.cfg'),
          dict(name='MC_Init events handled without the pending steps (sharpness)', spec='MC_Init',
               cfg='MC_Init_noearly.cfg', expect_violation='StepsBeforeEvent')]
    return ms


def _rand_cfg(rnd, n):
    cfg = []
    for b in range(1, n + 1):
        asyn = rnd.choice(['none', 'none', 'ok', 'ok', 'raise', 'never'])
        # readerr: the storage fails to deliver the block's record (a damaged file): logged, ignored
        c = {'restore': rnd.choice(['none', 'none', 'ok', 'noinit', 'raise', 'readerr']), 'asyn': asyn,
             # a routine either ends well before every timeout or never within the largest one:
             # how long a routine with a short timeout may overrun while the simulator awaits
             # another one is not specified (only the bound by the largest init_timeout is)
             'dur': 1 if asyn == 'none' else rnd.choice([1, 2, 2, 30]),
             'tmo': 0 if asyn == 'none' else rnd.choice([0, 3, 4, 7]),
             'regular': rnd.choice(['none', 'none', 'set']), 'initdef': rnd.random() < 0.35,
             'edge': rnd.choice([0, 0] + list(range(b + 1, n + 1)))}
        if c['dur'] == c['tmo']:
            c['dur'] += 1           # (completion exactly at the timeout is a tie: excluded)
        if asyn == 'never':
            c['dur'] = 99
        # the library's own user of the asynchronous initialisation: a ValuePoll whose function
        # yields its first valid value after `dur` polls (instead of a probe block)
        c['lib'] = asyn in ('ok', 'never') and c['restore'] == 'none' and c['tmo'] > 0 and rnd.random() < 0.5
        cfg.append(c)
    targets = {c['edge'] for c in cfg}
    for b, c in enumerate(cfg, 1):
        if b in targets:
            c['lib'] = False        # (a ValuePoll accepts no 'put' events)
    return cfg


def stimuli(tier, seed, ctx):
    rnd = random.Random(seed)
    out = []
    for _ in range(250 if tier == 'quick' else 5000):
        n = rnd.choice([1, 2, 2, 3, 3, 3, 4])
        cfg = _rand_cfg(rnd, n)
        # the first evaluation of a combinational block raises, or yields no valid output (UNDEF)
        # ... or an FSM whose output in its initial state is UNDEF: it cannot be initialised
        cbfail = rnd.choice(['raise', 'undef', 'fsm_undef']) if rnd.random() < 0.18 else False
        # an external event right after the blocks were started (before any initialisation), and
        # an application that declares persistent blocks but provides no storage
        cands = [b for b in range(1, n + 1) if not cfg[b - 1].get('lib')]
        first = rnd.choice(cands) if cands and rnd.random() < 0.25 else 0
        nostorage = rnd.random() < 0.15
        cleanup = rnd.random() < 0.4
        perms = list(itertools.permutations(range(1, n + 1)))
        if n == 4:
            perms = rnd.sample(perms, 4)
        for p in perms:
            out.append({'cfg': cfg, 'order': list(p), 'cbfail': cbfail, 'cleanup': cleanup,
                        # a long chain of combinational blocks behind the one that is observed: the
                        # first evaluation is still one uninterrupted step
                        'chain': 1200 if rnd.random() < 0.01 else 0,
                        # an 'expiration' setting of the persistent blocks; the storage carries no
                        # stop time stamp (an earlier run did not stop regularly): nothing expires
                        'expiration': rnd.random() < 0.3,
                        'first': first, 'nostorage': nostorage,
                        # a second wait_init() while a slow clean-up of the stopped / failed
                        # simulation is still in progress
                        'late': rnd.random() < 0.3})
    return out


def execute(stim):
    import edzed
    cfg, order = stim['cfg'], stim['order']
    n = len(cfg)
    lines = []
    late = []

    def tag(v):
        if v is edzed.UNDEF:
            return 0
        if isinstance(v, tuple):
            return TAG.get(v[0], -9)
        return TAG.get(v, -9)

    class Mixin:
        def __init__(self, *a, conf, idx, **kw):
            self.conf, self.idx = conf, idx
            super().__init__(*a, **kw)

        def set_output(self, value):
            lines.append({'ev': 'out', 'b': self.idx, 'v': tag(value)})
            super().set_output(value)

        def _restore_state(self, state):
            lines.append({'ev': 'call', 'b': self.idx, 'r': 'restore'})
            if self.conf['restore'] == 'raise':
                raise RuntimeError('scripted restore failure')
            if self.conf['restore'] == 'ok':
                self.set_output(('restored', state))

        def init_regular(self):
            lines.append({'ev': 'call', 'b': self.idx, 'r': 'regular'})
            if self.conf['regular'] == 'set':
                self.set_output('regular')

        def init_from_value(self, value):
            lines.append({'ev': 'call', 'b': self.idx, 'r': 'initdef'})
            self.set_output(('initdef', value))

    def handler(self, *, value=None, **_data):
        lines.append({'ev': 'call', 'b': self.idx, 'r': 'event'})
        self.set_output(('ev', self.idx))

    class PA(Mixin, edzed.AddonPersistence, edzed.AddonAsync, edzed.SBlock):
        _event_put = handler

        async def init_async(self):
            lines.append({'ev': 'call', 'b': self.idx, 'r': 'async'})
            kind = self.conf['asyn']
            # (on a real clock the routines are entered one after another, so equal durations end in
            # the order of their start; the virtual clock does not advance in between and would leave
            # the order of equal deadlines to the timer heap: make the start order explicit)
            await asyncio.sleep(self.conf['dur'] * TICK + order.index(self.idx) * 1e-8
                                if kind != 'never' else 10 ** 6)
            if kind == 'raise':
                raise RuntimeError('scripted init_async failure')
            if not self.is_initialized():
                self.set_output('async')

    class PS(Mixin, edzed.AddonPersistence, edzed.SBlock):
        _event_put = handler

    class VP(Mixin, edzed.ValuePoll):
        async def init_async(self):
            lines.append({'ev': 'call', 'b': self.idx, 'r': 'async'})
            await super().init_async()

    def poll_func(conf, idx):
        st = {'n': 0}

        async def poll():
            st['n'] += 1
            if st['n'] == conf['dur'] + 1:
                await asyncio.sleep(order.index(idx) * 1e-8)     # (start order, see above)
            return 'async' if conf['asyn'] == 'ok' and st['n'] > conf['dur'] else edzed.UNDEF
        return poll

    def factory(loop, clock):
        async def main():
            circuit = edzed.get_circuit()
            class Storage(collections.abc.MutableMapping):
                """a storage back-end whose read of certain records fails"""
                def __init__(self):
                    self.d, self.bad = {}, set()

                def __getitem__(self, key):
                    if key in self.bad:
                        raise RuntimeError('scripted storage read error')
                    return self.d[key]

                def __setitem__(self, key, value):
                    self.bad.discard(key)
                    self.d[key] = value

                def __delitem__(self, key):
                    self.bad.discard(key)
                    del self.d[key]

                def __iter__(self):
                    return iter(self.d)

                def __len__(self):
                    return len(self.d)

                def __contains__(self, key):
                    return key in self.d
            storage = Storage()
            if not stim.get('nostorage'):
                circuit.set_persistent_data(storage)
            blocks = {}
            for b in order:
                c = cfg[b - 1]
                kw = {}
                cls = PS
                if c['asyn'] != 'none':
                    cls = PA
                    kw['init_timeout'] = c['tmo'] * TICK
                if c['initdef']:
                    kw['initdef'] = b
                if c['edge']:
                    kw['on_output'] = edzed.Event(f'b{c["edge"]}', 'put')
                if c.get('lib'):
                    blocks[b] = VP(f'b{b}', conf=c, idx=b, func=poll_func(c, b), interval=TICK, **kw)
                    continue
                if stim.get('expiration') and c['restore'] != 'none':
                    kw['expiration'] = 100 * TICK
                blocks[b] = cls(f'b{b}', conf=c, idx=b, persistent=c['restore'] != 'none', **kw)
                if c['restore'] != 'none':
                    storage[blocks[b].key] = 'S'
                    if c['restore'] == 'readerr':
                        storage.bad.add(blocks[b].key)

            if stim['cbfail'] == 'fsm_undef':
                class Hold(edzed.FSM):
                    STATES = ['idle', 'got']
                    EVENTS = [('sample', None, 'got')]

                    def calc_output(self):          # UNDEF = "leave the output as it is"
                        return 1 if self.state == 'got' else edzed.UNDEF
                Hold('hold')

            def fn(x):
                if stim['cbfail'] == 'undef':
                    return edzed.UNDEF
                if stim['cbfail'] == 'fsm_undef':
                    return 1
                if stim['cbfail']:
                    raise RuntimeError('scripted calc_output failure')
                return 1
            cb = edzed.FuncBlock('cb', func=fn).connect('b1')
            for k in range(stim.get('chain') or 0):
                cb = edzed.FuncBlock(f'cb{k}', func=lambda x: x).connect(cb)
            # a combinational block fed by constants only: it has a valid
            # output after the start like every other block
            edzed.FuncBlock('konst', func=lambda a, b: a + b).connect(edzed.Const(6), edzed.Const(7))
            if stim['cleanup']:
                edzed.Repeat('rep', dest='b1', etype='nosuch', interval=1)     # a block with async clean-up
            if stim.get('late'):
                class SlowStop(edzed.AddonAsync, edzed.SBlock):
                    def init_regular(self):
                        self.set_output(0)

                    async def stop_async(self):
                        await asyncio.sleep(3 * TICK)
                SlowStop('slowstop', stop_timeout=20 * TICK)
            t0 = loop.time()
            task = asyncio.create_task(circuit.run_forever())
            if stim.get('first'):
                await asyncio.sleep(0)      # the blocks were started, nothing is initialised yet
                try:
                    edzed.ExtEvent(blocks[stim['first']]).send(0)
                except Exception as err:
                    lines.append({'ev': 'call', 'b': stim['first'], 'r': 'failed:' + type(err).__name__})
            try:
                await circuit.wait_init()
                ok = True
            except edzed.EdzedInvalidState:
                ok = False
            x = (loop.time() - t0) / TICK
            lines.append({'ev': 'wait', 'ok': ok, 't': round(x) if abs(x - round(x)) < 1e-6 else 10 ** 6,
                          'outs': [tag(blocks[b].output) for b in range(1, n + 1)],
                          'ready': bool(circuit.is_ready()), 'cb': 0 if any(c.output is edzed.UNDEF for c in circuit.getblocks(edzed.CBlock)) else 1,
                          'err': circuit.error is not None})
            if stim.get('late'):
                stopper = asyncio.create_task(circuit.shutdown())
                await asyncio.sleep(TICK)           # the clean-up is in progress now
                busy = not task.done()
                try:
                    await circuit.wait_init()
                    ok2 = True
                except edzed.EdzedInvalidState:
                    ok2 = False
                late.append({'ev': 'wait2', 'ok': ok2, 'busy': busy})
                try:
                    await stopper
                except BaseException:
                    pass
            try:
                await circuit.shutdown()
            except BaseException:
                pass
            try:
                await task
            except BaseException:
                pass
        return main()

    vt.run(factory)
    # records after wait_init() returned belong to the clean-up, not to the start-up
    cut = next(i for i, e in enumerate(lines) if e['ev'] == 'wait')
    hcfg = cfg
    if stim.get('nostorage'):
        # without a storage nothing is restored (and nothing else changes)
        hcfg = [dict(c, restore='none') for c in cfg]
    # a record that cannot be read is no saved state at all
    hcfg = [dict(c, restore='none') if c['restore'] == 'readerr' else c for c in hcfg]
    hdr = {'cfg': hcfg, 'order': order, 'cbfail': bool(stim['cbfail']), 'cleanup': bool(stim['cleanup']),
           'first': stim.get('first', 0)}
    return {'hdr': hdr, 'ev': lines[:cut + 1] + late}


def nontrivial(stim, trace):
    srcs = {e['v'] for e in trace['ev'] if e['ev'] == 'out'}
    early = any(e['ev'] == 'call' and e['r'] == 'event' for e in trace['ev'])
    return len(srcs) >= 2 or early


def signature(stim, trace, why):
    e = why.get('event') or {}
    if e.get('ev') == 'wait':
        return (f"reject:wait:ok={e.get('ok')}:err={e.get('err')}:cbfail={stim['cbfail']}:"
                f"cleanup={stim['cleanup']}")
    return f"reject:{e.get('ev')}:{e.get('r', '')}"
