"""C11 - a block never handles two events at the same time."""
from __future__ import annotations

import asyncio
import itertools
import random

from .. import rt

PROP = 'C11'
MIN_NONTRIVIAL = 0.1         # (vacuity guard: share of executions that must reach a loop / diamond)
TRACE_SPEC = 'GuardTrace'
RULE = ('stimulus = (event graph over probe / Repeat / Input / Counter / FSM blocks with '
        'on_output, on_every_output, on_enter and probe events, filters, EventCond) + external '
        'event sequence (incl. unknown types and wrong parameters); distinct = SHA-1 of '
        'canonical JSON; non-trivial = the graph has a cycle (incl. self-loop) or a diamond')

PLAIN = {'trig': 'out', 'filter': 'pass', 'cond': 'none'}


def models(tier, seed):
    ms = [dict(name='MC_Guard all graphs of 3 nodes, kinds fwd/chg/tgl', spec='MC_Guard', cfg='MC_Guard_classic3.cfg'),
          dict(name='MC_Guard all graphs of 2 nodes, all kinds (incl. the zero-timer FSM)', spec='MC_Guard',
               cfg='MC_Guard_all2.cfg'),
          dict(name='MC_Guard labelled edges, 2 nodes', spec='MC_Guard', cfg='MC_Guard_labels2.cfg'),
          dict(name='MC_Guard flag-not-reset deviation (sharpness)', spec='MC_Guard',
               cfg='MC_Guard_noreset.cfg', expect_violation='Released'),
          dict(name='MC_Guard zero-length timed event checked with the guard off (sharpness)', spec='MC_Guard',
               cfg='MC_Guard_zerowin.cfg', expect_violation='Depth1')]
    if tier != 'quick':
        ms.append(dict(name='MC_Guard all graphs of 3 nodes, all kinds', spec='MC_Guard', cfg='MC_Guard.cfg'))
    return ms


def _impl(rnd, kind, edges):
    if kind == 'chg':
        return 'input'
    if kind == 'tgl':
        return rnd.choice(['counter', 'fsm'])
    if kind == 'ztg':
        return 'fsmz'
    if len(edges) == 1 and edges[0]['filter'] == 'pass' and edges[0]['cond'] == 'none' and rnd.random() < .5:
        return 'repeat'
    # a stateless forwarder: a plain probe block, or an OutputFunc forwarding through on_success
    return rnd.choice(['probe', 'probe', 'of'])


def _graph(rnd, kinds, edges):
    for es in edges:       # configured order: on_output events first, then on_every_output
        es.sort(key=lambda e: 0 if e['trig'] == 'out' else 1)
    impl = [_impl(rnd, k, es) for k, es in zip(kinds, edges)]
    for b, es in enumerate(edges):          # chains of Repeat blocks are C18's business
        if impl[b] == 'repeat' and impl[es[0]['to'] - 1] == 'repeat':
            impl[b] = 'probe'
    for b, es in enumerate(edges):
        if impl[b] in ('fsm', 'fsmz', 'probe', 'repeat', 'of'):
            for e in es:
                e['trig'] = 'out'           # on_enter / probe events: sent on every handled event
    return {'kind': kinds, 'edges': edges, 'impl': impl}


def _rand_seq(rnd, n, ln):
    seq = []
    for _ in range(ln):
        bad = rnd.choice(['none'] * 8 + ['unknown', 'type'])
        seq.append({'b': rnd.randint(1, n), 'v': rnd.randint(0, 1), 'bad': bad,
                    'via': rnd.choice(['ext', 'ext', 'timer'])})      # (timer: FSM blocks only)
    return seq


def stimuli(tier, seed, ctx):
    rnd = random.Random(seed)
    out = []
    # (i) all graphs with <= 3 nodes, plain edges (the space of MC_Guard.cfg)
    k = 0
    for n in (1, 2, 3):
        pairs = [(a, b) for a in range(1, n + 1) for b in range(1, n + 1)]
        for kinds in itertools.product(['fwd', 'chg', 'tgl', 'ztg'], repeat=n):
            for mask in range(2 ** len(pairs)):
                k += 1
                if tier == 'quick' and n == 3 and k % 24 != seed % 24:
                    continue
                edges = [[] for _ in range(n)]
                for i, (a, b) in enumerate(pairs):
                    if mask >> i & 1:
                        edges[a - 1].append(dict(PLAIN, to=b))
                g = _graph(rnd, list(kinds), edges)
                out.append({'g': g, 'init': [rnd.randint(0, 1) for _ in range(n)],
                            'seq': _rand_seq(rnd, n, 3)})
    # (ii) random labelled graphs up to 7 nodes
    for _ in range(500 if tier == 'quick' else 12000):
        n = rnd.randint(2, 7)
        kinds = [rnd.choice(['fwd', 'chg', 'chg', 'tgl', 'ztg']) for _ in range(n)]
        edges = [[] for _ in range(n)]
        p = rnd.choice([0.15, 0.25, 0.4])
        for a in range(n):
            for b in range(n):
                if rnd.random() < p:
                    edges[a].append({'to': b + 1, 'trig': rnd.choice(['out', 'out', 'every']),
                                     'filter': rnd.choice(['pass', 'pass', 'pass', 'reject']),
                                     'cond': rnd.choice(['none', 'none', 'none', 'tnone', 'fnone'])})
        g = _graph(rnd, kinds, edges)
        out.append({'g': g, 'init': [rnd.randint(0, 1) for _ in range(n)],
                    'seq': _rand_seq(rnd, n, rnd.randint(1, 4))})
    # (iii) the FSM's own windows (Fsm.tla / FsmTrace.tla, shared with C03): an entry action may
    # send ONE event to its own FSM (chained transition); an exit action - also the exit action
    # of an intermediate state of a chained transition - and a second request may not
    from . import c03
    for _ in range(250 if tier == 'quick' else 6000):
        nn = rnd.choice([2, 3, 3, 4])
        cfg = c03._rand_cfg(rnd, nn, rnd.choice([1, 2, 3]), xprob=0.05)
        for s_, ch in enumerate(cfg['chain']):
            if ch['on'] and rnd.random() < 0.6:       # an intermediate state whose exit action sends
                cfg['exit'][s_] = cfg['exit'][s_] or rnd.choice([1, 2, 3])
                cfg['xchain'][s_] = True
        seq = c03._rand_seq(rnd, cfg, rnd.randint(2, 10))
        if rnd.random() < 0.5:
            # a certain intermediate state: entered by Goto, leaves by a chained Goto, its exit
            # action sends an event to the FSM
            s_ = rnd.randint(1, nn)
            cfg['enter'][s_ - 1] = rnd.choice([1, 2, 3])
            cfg['exit'][s_ - 1] = rnd.choice([1, 2, 3])
            cfg['chain'][s_ - 1] = {'on': True, 'goto': rnd.choice([x for x in range(1, nn + 1) if x != s_]),
                                    'e': 1, 'tag': 8, 'prop': 0, 'double': False, 'always': False, 'cnd': 1}
            cfg['xchain'][s_ - 1] = True
            seq.insert(rnd.randint(0, len(seq)), {'goto': s_, 'e': 0, 'd': {
                'tag': 4, 'chain': 1, 'cond': 1, 'condf': 1, 'xc': 1}})
        for ev_ in seq:
            if rnd.random() < 0.5:
                ev_['d'].update(chain=1, xc=1)
        out.append({'family': 'fsmwin', 'cfg': cfg, 'seq': seq})
    return out


ETYPE = {'input': 'put', 'counter': 'inc', 'fsm': 'tgl', 'fsmz': 'tgl', 'probe': 'fwdev', 'repeat': 'put', 'of': 'put'}


def execute(stim):
    if stim.get('family') == 'fsmwin':
        from . import c03
        tr = c03.execute(stim)
        tr['_spec'] = 'FsmTrace'
        return tr
    import edzed
    g = stim['g']
    n = len(g['kind'])
    log = []
    orig_event = edzed.SBlock.event

    def code(x):
        try:
            return int(bool(x)) if x in (0, 1) else -9
        except Exception:
            return -9

    def wrapped(self, etype, /, **data):
        name = self.name
        if not (name.startswith('n') and name[1:].isdigit()) or etype in ('zzz', 'tick'):
            # ('tick': the zero-length timed event an FSM sends to itself - how it is delivered is
            # the FSM's business, only events arriving from other blocks are in the log)
            return orig_event(self, etype, **data)
        b = int(name[1:])
        v = code(data.get('value', 0))
        log.append(['enter', b, v])
        try:
            ret = orig_event(self, etype, **data)
        except BaseException:
            log.append(['fail', b, v])
            raise
        log.append(['leave', b, v])
        return ret

    class Probe(edzed.SBlock):
        out_events = ()

        def init_regular(self):
            self.set_output(None)

        def _event(self, etype, data):
            if etype != 'fwdev':
                raise edzed.EdzedUnknownEvent(f'unknown {etype}')
            for ev in self.out_events:
                ev.send(self, value=data.get('value'))

    class Tgl(edzed.FSM):
        STATES = ['s0', 's1']
        TIMERS = {'s0': (edzed.INF_TIME, 'tgl'), 's1': (edzed.INF_TIME, 'tgl')}
        EVENTS = [('tgl', ['s0'], 's1'), ('tgl', ['s1'], 's0')]

        def calc_output(self):
            return self._state == 's1'

    class ZTgl(edzed.FSM):
        """both states are timed with a zero duration; the timed event has no transition: it is
        checked as soon as a state is entered and the on_notrans events are sent"""
        STATES = ['s0', 's1']
        TIMERS = {'s0': (0, 'tick'), 's1': (0, 'tick')}
        EVENTS = [('tgl', ['s0'], 's1'), ('tgl', ['s1'], 's0'), ('tick', None, None)]

        def calc_output(self):
            return self._state == 's1'

    def etype_of(b):
        """event type accepted by block b (a Repeat accepts and forwards its destination's type)"""
        impl = g['impl'][b - 1]
        if impl == 'repeat':
            return etype_of(g['edges'][b - 1][0]['to'])
        return ETYPE[impl]

    def mk_events(b, trig=None, notrans=False):
        evs = []
        for e in g['edges'][b - 1]:
            if trig is not None and e['trig'] != trig:
                continue
            et = etype_of(e['to'])
            if e['cond'] == 'tnone':
                et = edzed.EventCond(None, et)
            elif e['cond'] == 'fnone':
                et = edzed.EventCond(et, None)
            flt = (lambda d: False) if e['filter'] == 'reject' else None
            if notrans and flt is None:
                # on_notrans events carry the state, not the value
                flt = lambda d: {**d, 'value': d['state'] == 's1'}
            evs.append(edzed.Event(f'n{e["to"]}', et, efilter=flt))
        return evs

    blocks = {}
    # every other circuit runs with persistent blocks (one more layer around event())
    persist = len(repr(stim['seq'])) % 2 == 0

    def build(circuit):
        for b in range(1, n + 1):
            impl = g['impl'][b - 1]
            iv = stim['init'][b - 1]
            pk = {'persistent': True} if persist else {}      # (an empty storage: nothing to restore)
            if impl == 'input':
                blk = edzed.Input(f'n{b}', initdef=iv, on_output=mk_events(b, 'out'),
                                  on_every_output=mk_events(b, 'every'), **pk)
            elif impl == 'counter':
                blk = edzed.Counter(f'n{b}', modulo=2, initdef=iv, on_output=mk_events(b, 'out'),
                                    on_every_output=mk_events(b, 'every'), **pk)
            elif impl == 'fsm':
                evs = mk_events(b)
                blk = Tgl(f'n{b}', initdef=f's{iv}', on_enter_s0=evs, on_enter_s1=evs, **pk)
            elif impl == 'fsmz':
                blk = ZTgl(f'n{b}', initdef=f's{iv}', on_notrans=mk_events(b, notrans=True), **pk)
            elif impl == 'repeat':
                e = g['edges'][b - 1][0]
                blk = edzed.Repeat(f'n{b}', dest=f'n{e["to"]}', etype=etype_of(e['to']),
                                   interval='1h', count=0)
            elif impl == 'of':
                blk = edzed.OutputFunc(f'n{b}', func=lambda value: value, on_success=mk_events(b), on_error=None)
            else:
                blk = Probe(f'n{b}')
                blk.out_events = mk_events(b)
            blocks[b] = blk
        edzed.Not('keepalive').connect('n1')
        return blocks

    def vals():
        res = []
        for b in range(1, n + 1):
            impl = g['impl'][b - 1]
            blk = blocks[b]
            if impl in ('input', 'counter', 'fsm', 'fsmz'):
                res.append(code(blk.output))
            else:
                res.append(stim['init'][b - 1])     # stateless in the model
        return res

    lines = []
    hdr = {'kind': g['kind'], 'edges': [[{k: e[k] for k in ('to', 'trig', 'filter', 'cond')} for e in es]
                                        for es in g['edges']], 'impl': g['impl']}

    def locked():
        res = []
        for b in range(1, n + 1):
            try:
                orig_event(blocks[b], 'zzz')
            except edzed.EdzedCircuitError:
                res.append(b)
            except Exception:
                pass
        return res

    async def script(circuit, ctx, loop, clock):
        # the nesting of event() calls recorded during the start-up
        lines.append({'ev': 'startup', 'log': [list(x) for x in log], 'cerr': circuit.error is not None})
        if circuit.error is not None:
            hdr['vals'] = stim['init']
            return          # the start-up cascade itself failed: only the nesting is checked
        hdr['vals'] = vals()
        for ev in stim['seq']:
            del log[:]
            b, v, bad = ev['b'], ev['v'], ev['bad']
            impl = g['impl'][b - 1]
            et = etype_of(b)
            kw = {'value': v}
            if bad == 'unknown':
                et = 'nosuchevent'
                if impl == 'repeat':
                    bad = 'none2'      # a Repeat ignores other types silently
            elif bad == 'type':
                if impl == 'input':
                    kw = {}
                elif impl == 'counter':
                    et, kw = 'put', {}
                else:
                    bad = 'none'
            try:
                if ev.get('via') == 'timer' and impl == 'fsm' and bad == 'none':
                    # the event is delivered by the FSM's own timer: nobody is there to catch
                    # what event() raises, the loop only logs it
                    blocks[b]._set_timer(0.25, 'tgl')
                    await asyncio.sleep(0.5)
                    v = 0
                    exc = 'circuit' if circuit.error is not None else 'none'
                else:
                    edzed.ExtEvent(blocks[b], et).send(**kw)
                    exc = 'none'
            except edzed.EdzedCircuitError:
                exc = 'circuit'
            except edzed.EdzedUnknownEvent:
                exc = 'unknown'
            except TypeError:
                exc = 'type'
            await rt.settle(2)
            if bad == 'none2':
                continue
            lines.append({'ev': 'ext', 'b': b, 'v': v, 'bad': bad, 'exc': exc,
                          'cerr': circuit.error is not None, 'log': [list(x) for x in log],
                          'locked': locked(), 'vals': vals()})
            if circuit.error is not None:
                break

    from edzed import simulator as _sim
    import inspect
    orig_static = inspect.getattr_static(_sim.Circuit, 'init_sblock')      # (a staticmethod today)
    is_static = isinstance(orig_static, staticmethod)
    orig_init = _sim.Circuit.init_sblock

    def init_wrapped(*args, **kw):
        blk = args[0] if is_static else args[1]
        name = blk.name
        known = name.startswith('n') and name[1:].isdigit()
        if known:
            log.append(['ib', int(name[1:]), 0])
        try:
            return orig_init(*args, **kw)
        finally:
            if known:
                log.append(['ie', int(name[1:]), 0])
    edzed.SBlock.event = wrapped
    _sim.Circuit.init_sblock = staticmethod(init_wrapped) if is_static else init_wrapped
    try:
        rt.run_circuit(build, script, storage={} if persist else None)
    finally:
        edzed.SBlock.event = orig_event
        _sim.Circuit.init_sblock = orig_static
    return {'hdr': hdr, 'ev': lines}


def _cyclic_or_diamond(g):
    n = len(g['kind'])
    adj = {b: {e['to'] for e in g['edges'][b - 1]} for b in range(1, n + 1)}
    # cycle
    color = {}

    def dfs(u):
        color[u] = 1
        for w in adj[u]:
            if color.get(w) == 1 or (w not in color and dfs(w)):
                return True
        color[u] = 2
        return False
    if any(b not in color and dfs(b) for b in adj):
        return True
    # diamond: two distinct paths a -> .. -> d
    def count_paths(a, d, memo):
        if a == d:
            return 1
        if a in memo:
            return memo[a]
        memo[a] = sum(count_paths(w, d, memo) for w in adj[a])
        return memo[a]
    return any(count_paths(a, d, {}) > 1 for a in adj for d in adj if a != d)


def nontrivial(stim, trace):
    if stim.get('family') == 'fsmwin':
        return any(c['on'] for c in stim['cfg']['chain']) or any(stim['cfg']['xchain'])
    return any(e['ev'] == 'ext' for e in trace['ev']) and _cyclic_or_diamond(stim['g'])


def signature(stim, trace, why):
    e = why.get('event') or {}
    if e.get('ev') == 'startup':
        return 'reject:startup:nesting'
    if stim.get('family') == 'fsmwin':
        return f"reject:fsmwin:ret={e.get('ret')}"
    return f"reject:exc={e.get('exc')}:bad={e.get('bad')}:locked={bool(e.get('locked'))}"
