"""C19 - duration strings and numbers convert consistently in both directions."""
from __future__ import annotations

import random
import re

PROP = 'C19'
LEVEL = 'other'
TRACE_SPEC = 'DurationsTrace'
RULE = ('stimulus = batch of cases: abstract durations (components d/h/m/s/years/months present or '
        'absent, fraction of 0..999 thousandths in any one unit) rendered by the harness into the '
        'traditional notation (unit case, inner blanks, point or comma, optional final s) and into '
        'ISO 8601; integers 0..10^7 dense at unit boundaries and floats with up to 6 decimals for '
        'timestr / timestr_approx (ties of the rounding digit excluded); documented-malformed strings; '
        'distinct = SHA-1 of the case; non-trivial = a string with at least two units or a fraction, or '
        'a number >= 60 s')
EXPLANATION = ('reference evaluation: unit arithmetic, validity (fraction only in the smallest unit, '
               'years/months zero, at least one part), d/h/m/s decomposition, rounding and the rounding '
               'steps of timestr_approx are TLA+ definitions (Durations.tla, laws model-checked in '
               'MC_Durations); TLC evaluates every recorded case against them. The regular expressions '
               'of timeunits.py are not modelled: strings are produced by the harness renderer and '
               'output strings are split into components by the harness.')
ASSUMPTIONS = ['the harness renderer / output parser are trusted for the lexical side',
               'floats are compared after scaling to integer micro/milliseconds (tolerance 2e-8 s)']
SHARDS = {'quick': 4, 'thorough': 8}
ABSENT = -1
UNITS = ['d', 'h', 'm', 's']

BAD = ['', ' ', '\t', '  \n', 'P', 'PT', ' PT ', 'T', 'T1H', 'P1H', 'P1S', 'PT1D', 'P1DT1D', 'PT1H1H',
       'PT1S1M', 'P1D1Y', '1x', '5 sec', '5 minutes', '-5s', '+5s', '- 5s', '1e3s', '1.5.2s', '1,5,2s',
       '1s1s', '1m1h', '1h1h', '1s1m', '1h1d', '1d1d', 's', 'h', 'm5', 'd5', 'abc', '1 000 000 s x',
       '1h;2m', '1h,2m', '1h+2m', 'PT1H 30M', 'P 1D', 'PT-1S', 'P-1D', '1:30', '0x10s', '1_0s',
       '1.5h1m', '1,5h 1m', '0.5d1h', '1.5d0.5h', '2.5m3.5s', 'P1.5DT1H', 'PT1.5H1M', 'PT1,5M1S',
       '1.5h0m', '1.5h0m0s', '0.5d0h', '2.5m0', '2.5m0s', 'P1.5DT0H', 'PT1.5H0M', 'PT1.5M0S', 'PT0.5H0S',
       'P1Y', 'P1M', 'P2Y3M', 'P1Y1D', 'P1MT1M', 'P0Y1M', 'P0.5Y',
       # numbers in Python's float syntax that are no durations
       '-5', '+5', '1e3', '1E3', '1e-2', '1_000', 'inf', '-inf', 'nan', 'Infinity', '1e3s', '\u0663']


def models(tier, seed):
    return [dict(name='MC_Durations laws', spec='MC_Durations', cfg='MC_Durations.cfg')]


def _abstract(rnd):
    x = {'y': ABSENT, 'mo': ABSENT, 'd': ABSENT, 'h': ABSENT, 'm': ABSENT, 's': ABSENT, 'fu': 'none', 'f': 0}
    big = rnd.random() < 0.2
    for u in UNITS:
        if rnd.random() < 0.5:
            x[u] = rnd.choice([0, 0, 1, 2, 5, 23, 24, 59, 60, 72, 100]) if not big else rnd.randint(0, 3000)
    r = rnd.random()
    if r < 0.08:
        x['y'] = rnd.choice([0, 0, 0, 1, 3])
    if r < 0.04 or 0.08 <= r < 0.12:
        x['mo'] = rnd.choice([0, 0, 0, 2])
    present = [u for u in UNITS if x[u] != ABSENT]
    if present and rnd.random() < 0.5:
        # mostly the smallest unit (valid), sometimes a larger one (must be refused)
        x['fu'] = present[-1] if rnd.random() < 0.7 else rnd.choice(present)
        x['f'] = rnd.choice([0, 5, 25, 50, 100, 125, 250, 333, 500, 750, 999, rnd.randint(0, 999)])
    return x


def _num(x, u, rnd):
    s = str(x[u])
    if x['fu'] == u:
        digits = f"{x['f']:03d}"
        if rnd.random() < 0.6:
            digits = digits.rstrip('0') or '0'
        s += rnd.choice(['.', '.', ',']) + digits
    return s


def render(x, iso, rnd):
    """abstract duration -> string (None if this notation cannot express x)"""
    if iso:
        s = 'P'
        if x['y'] != ABSENT:
            s += f"{x['y']}Y"
        if x['mo'] != ABSENT:
            s += f"{x['mo']}M"
        if x['d'] != ABSENT:
            s += _num(x, 'd', rnd) + 'D'
        t = ''
        for u, letter in (('h', 'H'), ('m', 'M'), ('s', 'S')):
            if x[u] != ABSENT:
                t += _num(x, u, rnd) + letter
        if t:
            s += 'T' + t
        pad = lambda: ' ' * rnd.choice([0, 0, 0, 1, 2])
        return pad() + s + pad()
    if x['y'] != ABSENT or x['mo'] != ABSENT:
        return None
    ws = lambda: ' ' * rnd.choice([0, 0, 0, 1, 2])
    parts = []
    present = [u for u in UNITS if x[u] != ABSENT]
    for u in present:
        letter = u.upper() if rnd.random() < 0.3 else u
        if u == 's' and len(present) > 1 and rnd.random() < 0.3:
            letter = ''                 # '20h15m10'
        parts.append(_num(x, u, rnd) + ws() + letter)
    return ws() + ws().join(parts) + ws()


def _grid_ints(rnd, n):
    base = [0, 1, 59, 60, 61, 599, 600, 3599, 3600, 3601, 35999, 36000, 36001, 36029, 36030, 36031,
            86399, 86400, 86401, 90061, 863999, 864000, 864001, 865799, 865800, 865801, 10 ** 7]
    out = list(base)
    while len(out) < n:
        r = rnd.random()
        if r < 0.3:
            out.append(rnd.randint(0, 4000))
        elif r < 0.6:
            out.append(rnd.choice([60, 3600, 36000, 86400, 864000]) * rnd.randint(1, 9) + rnd.randint(-2, 2))
        else:
            out.append(rnd.randint(0, 10 ** 7))
    return [max(0, v) for v in out]


def stimuli(tier, seed, ctx):
    rnd = random.Random(seed)
    cases = []
    n = 1500 if tier == 'quick' else 20000
    for _ in range(n):
        x = _abstract(rnd)
        iso = rnd.random() < 0.4 or x['y'] != ABSENT or x['mo'] != ABSENT
        text = render(x, iso, rnd)
        if text is None:
            continue
        cases.append({'k': 'conv', 'x': x, 'iso': iso, 'text': text, 'via': rnd.choice(['convert', 'period'])})
        if iso and rnd.random() < 0.15:
            # lower case is allowed in the traditional format only
            low = rnd.choice([text.lower(), text.replace('P', 'p', 1), text[0] + text[1:].lower()])
            if low != text:
                cases.append({'k': 'bad', 'text': low, 'via': rnd.choice(['convert', 'period'])})
    for sec in _grid_ints(rnd, n // 2):
        cases.append({'k': 'tstr', 'sec': sec, 'us': 0, 'isfloat': False, 'prec': 3, 'sep': rnd.choice(['', ' '])})
        cases.append({'k': 'approx', 'sec': sec, 'us': 0, 'isfloat': False, 'sep': rnd.choice(['', ' '])})
    edge_us = [0, 1, 400, 499, 501, 600, 4999, 5001, 49999, 50001, 99600, 499999, 500001, 999400,
               999499, 999501, 999600, 999949, 999951, 999999]
    for sec in _grid_ints(rnd, n // 2):
        us = rnd.choice(edge_us) if rnd.random() < 0.6 else rnd.randint(0, 999999)
        prec = rnd.choice([3, 3, 3, 0, 1, 2, 4, 6])
        if sec > 10 ** 6:
            us = (us // 1000) * 1000        # keep the float exact enough
        cases.append({'k': 'tstr', 'sec': sec, 'us': us, 'isfloat': True, 'prec': prec, 'sep': rnd.choice(['', ' '])})
        cases.append({'k': 'approx', 'sec': sec, 'us': us, 'isfloat': True, 'sep': rnd.choice(['', ' '])})
    for _ in range(n // 10):
        sec, us = rnd.randint(0, 5000), rnd.choice([0, 0, 500000, 250000])
        cases.append({'k': 'period', 'sec': sec, 'us': us, 'neg': rnd.random() < 0.5,
                      'isfloat': us != 0 or rnd.random() < 0.5,
                      # through time_period(), or as a block argument that accepts a duration
                      'site': rnd.choice(['', '', 'stop_timeout', 'init_timeout', 'interval'])})
    cases.append({'k': 'none'})
    for b in BAD:
        cases.append({'k': 'bad', 'text': b, 'via': 'convert'})
        cases.append({'k': 'bad', 'text': b, 'via': 'period'})
    rnd.shuffle(cases)
    return [{'cases': cases[i:i + 40]} for i in range(0, len(cases), 40)]


_RE_OUT = re.compile(r'^(?:(\d+)d)?\s*(?:(\d+)h)?\s*(?:(\d+)m)?\s*(?:(\d+)(?:\.(\d+))?s)?$')


def _split(val, unit):
    """float/int seconds -> (sec, sub-unit, exact?) with unit = 1000 (ms) or 10**6 (us)"""
    scaled = val * unit
    r = round(scaled)
    exact = abs(scaled - r) <= 0.02 * (unit / 10 ** 6) + 1e-9 * max(1.0, abs(scaled)) * 1e-3
    return int(r // unit), int(r % unit), bool(exact)


def _parse_out(text):
    m = _RE_OUT.match(text.strip())
    if not m or not text.strip():
        return None
    d, h, mi, s, fr = m.groups()
    c = {'d': int(d or 0), 'h': int(h or 0), 'm': int(mi or 0), 's': int(s or 0)}
    shown = {'d': d is not None, 'h': h is not None, 'm': mi is not None, 's': s is not None}
    ndec = len(fr) if fr else 0
    frac = int(fr.ljust(6, '0')[:6]) if fr else 0
    return c, shown, ndec, frac


def execute(stim):
    from edzed import utils
    lines = []
    for c in stim['cases']:
        k = c['k']
        if k in ('conv', 'bad'):
            fn = utils.convert if c['via'] == 'convert' else utils.time_period
            try:
                val = fn(c['text'])
                err = False
            except ValueError:
                val, err = 0.0, True
            if k == 'bad':
                lines.append({'ev': 'bad', 'text': c['text'], 'err': err})
                continue
            if not err and not isinstance(val, float):
                err, val = False, float('nan')
            sec, ms, exact = (0, 0, False) if err or val != val else _split(val, 1000)
            lines.append({'ev': 'conv', 'x': c['x'], 'iso': c['iso'], 'text': c['text'], 'err': err,
                          'sec': sec, 'ms': ms, 'exact': exact})
        elif k == 'none':
            lines.append({'ev': 'none', 'isnone': utils.time_period(None) is None})
        elif k == 'period':
            num = c['sec'] + c['us'] / 10 ** 6 if c['isfloat'] else c['sec']
            if c['neg']:
                num = -num if num else -1
            site = c.get('site')
            if site == 'interval' and num <= 0:
                site = ''               # (an interval must be positive)
            if site:
                import edzed
                edzed.reset_circuit()
                kw = {'interval': 1, site: num}
                blk = edzed.ValuePoll('vp', func=lambda: 0, **kw)
                r = blk._interval if site == 'interval' else getattr(blk, site)
                edzed.reset_circuit()
            else:
                r = utils.time_period(num)
            sec, us, exact = _split(r, 10 ** 6)
            t = {'sec': c['sec'], 'us': c['us'] if c['isfloat'] else 0}
            lines.append({'ev': 'period', 'neg': c['neg'], 't': t, 'r': {'sec': sec, 'us': us},
                          'isfloat': isinstance(r, float) and exact})
        else:
            num = float(f"{c['sec']}.{c['us']:06d}") if c['isfloat'] else c['sec']
            t = {'sec': c['sec'], 'us': c['us']}
            try:
                text = (utils.timestr(num, sep=c['sep'], prec=c['prec']) if k == 'tstr'
                        else utils.timestr_approx(num, sep=c['sep']))
                parsed = _parse_out(text)
            except Exception:
                text, parsed = '<exception>', None
            if parsed is None:
                lines.append({'ev': k, 't': t, 'isfloat': c['isfloat'], 'prec': c.get('prec', 0),
                              'err': True, 'text': text})
                continue
            comp, shown, ndec, frac = parsed
            if k == 'tstr':
                try:
                    bsec, bus, bexact = _split(utils.convert(text), 10 ** 6)
                    back = {'err': False, 'sec': bsec, 'us': bus, 'exact': bexact}
                except ValueError:
                    back = {'err': True, 'sec': 0, 'us': 0, 'exact': False}
                lines.append({'ev': 'tstr', 't': t, 'isfloat': c['isfloat'], 'prec': c['prec'], 'err': False,
                              'text': text, 'c': comp, 'shown': shown, 'ndec': ndec, 'frac': frac, 'back': back})
            else:
                v = {'sec': comp['d'] * 86400 + comp['h'] * 3600 + comp['m'] * 60 + comp['s'], 'us': frac}
                lines.append({'ev': 'approx', 't': t, 'isfloat': c['isfloat'], 'err': False, 'text': text,
                              'v': v, 'has_s': shown['s'], 'ndec': ndec})
    return {'hdr': {}, 'ev': lines}


def nontrivial(stim, trace):
    for e in trace['ev']:
        if e['ev'] == 'conv':
            x = e['x']
            if sum(1 for u in UNITS if x[u] != ABSENT) >= 2 or x['fu'] != 'none':
                return True
        elif e['ev'] in ('tstr', 'approx') and e['t']['sec'] >= 60:
            return True
    return False


def signature(stim, trace, why):
    e = why.get('event') or {}
    detail = ''
    if e.get('ev') == 'conv':
        x = e['x']
        detail = ':err=%s:frac=%s:iso=%s' % (e.get('err'), x['fu'] != 'none', e.get('iso'))
    elif e.get('ev') == 'bad':
        detail = ':' + repr(e.get('text'))
    return f"reject:{e.get('ev')}{detail}"
