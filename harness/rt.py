"""Helpers to run a real edzed circuit on the virtual-time loop."""
from __future__ import annotations

import asyncio

from . import vt


def run_circuit(build, script, *, storage=None, clock_setup=None, start=True):
    """
    Fresh loop + fresh circuit; ctx = build(circuit); start the simulation, wait for init,
    result = await script(circuit, ctx, loop, clock); regular shutdown.
    Exceptions of wait_init()/shutdown() are passed to the script through ctx-independent
    attributes of the returned Run object.
    """
    info = {'init_exc': None, 'shutdown_exc': None, 'result': None}

    def factory(loop, clock):
        async def main():
            import edzed
            circuit = edzed.get_circuit()
            if storage is not None:
                circuit.set_persistent_data(storage)
            ctx = build(circuit)
            task = None
            if start:
                task = asyncio.create_task(circuit.run_forever())
                try:
                    await circuit.wait_init()
                except Exception as err:    # recorded, the script decides
                    info['init_exc'] = err
            info['result'] = await script(circuit, ctx, loop, clock)
            if task is not None:
                try:
                    await circuit.shutdown()
                except asyncio.CancelledError:
                    pass
                except Exception as err:
                    info['shutdown_exc'] = err
                if not task.done():
                    try:
                        await task
                    except BaseException:
                        pass
            return info
        return main()
    return vt.run(factory, clock_setup=clock_setup)


async def settle(n: int = 3) -> None:
    """Let the simulator task run (it handles a whole burst in one step)."""
    for _ in range(n):
        await asyncio.sleep(0)
