"""
Deterministic virtual-time asyncio loop and wall-clock shims (DESIGN.md 4.1).

The loop keeps the real selector machinery (call_soon_threadsafe, signals work) but
never blocks: when nothing is ready the virtual clock jumps to the next timer.
Wall-clock readers inside edzed are redirected to  EPOCH0 + loop.time() + clock.offset .
"""
from __future__ import annotations

import asyncio
import datetime as _dt
import os
import selectors
import types

EPOCH0 = 1_700_000_000.0      # 2023-11-14 22:13:20 UTC, start of the virtual wall clock
LOOP0 = 1000.0                # start of the virtual loop clock


class _VSelector(selectors.SelectSelector):
    def __init__(self, ref):
        super().__init__()
        self._ref = ref

    def select(self, timeout=None):
        ev = super().select(0)
        loop = self._ref[0]
        sig = loop.signal_at
        if not ev and sig is not None and (timeout is None or loop._vnow <= sig[0] <= loop._vnow + timeout):
            # a signal arrives while the loop is blocked in select(): its handler runs here; only
            # something written to the loop's self-pipe (call_soon_threadsafe) ends the wait early
            start = loop._vnow
            loop._vnow = max(loop._vnow, sig[0])
            loop.signal_at = None
            import signal as _signal
            if not callable(_signal.getsignal(sig[1])):
                return ev               # (nobody handles that signal any more: not sent)
            if loop.on_signal is not None:
                loop.on_signal()
            os.kill(os.getpid(), sig[1])
            ev = super().select(0)
            if ev or timeout is None:
                return ev
            loop._vnow = start + timeout        # nobody woke the loop: it sleeps on
            return ev
        if ev or timeout is None or timeout <= 0:
            return ev
        loop._vnow += timeout
        if loop.latency_fn is not None:
            loop._vnow += loop.latency_fn()
        return ev


class VLoop(asyncio.SelectorEventLoop):
    """Event loop with a virtual clock."""

    def __init__(self):
        ref = [None]
        super().__init__(_VSelector(ref))
        ref[0] = self
        self._vnow = LOOP0
        self.signal_at = None       # optional: (virtual time, signal number) delivered during select()
        self.on_signal = None       # optional: called just before that signal is sent
        self.latency_fn = None      # optional: extra lateness of a timer wake-up
        self.timer_log = None       # optional list receiving (op, handle-id, when, now)

    def time(self):
        return self._vnow

    def advance(self, secs: float) -> None:
        """Keep the loop 'busy' for secs of virtual time (called from inside a callback)."""
        self._vnow += secs


class Clock:
    """Virtual wall clock bound to a loop; offset models clock jumps."""

    def __init__(self, loop: VLoop, epoch0: float = EPOCH0, tz_offset: float = 0.0):
        self.loop = loop
        self.epoch0 = epoch0
        self.offset = 0.0
        self.tz_offset = tz_offset      # local time = UTC + tz_offset seconds
        self.read_cost = 0.0            # virtual cost of one clock read

    def time(self) -> float:
        if self.read_cost:
            self.loop._vnow += self.read_cost
        return self.epoch0 + (self.loop._vnow - LOOP0) + self.offset

    def sleep(self, secs: float) -> None:       # replaces blocking time.sleep
        if secs < 0:
            raise ValueError('sleep length must be non-negative')      # as time.sleep does
        if secs > 0:
            self.loop._vnow += secs


def install_clock(clock: Clock) -> None:
    """Redirect edzed's wall-clock readers to the virtual clock."""
    import time as _time
    import edzed
    from edzed import addons, fsm, simulator
    from edzed.utils import looptimes
    from edzed.blocklib import cron

    tshim = types.SimpleNamespace(
        time=clock.time, sleep=clock.sleep, monotonic=lambda: clock.loop.time(),
        strftime=_time.strftime, localtime=_time.localtime, gmtime=_time.gmtime)
    for mod in (simulator, addons, fsm, looptimes, cron):
        if not hasattr(mod, 'time'):
            raise RuntimeError(f'machinery: module {mod.__name__} has no name "time" to shim')
        mod.time = tshim

    class VDateTime(_dt.datetime):
        @classmethod
        def now(cls, tz=None):
            ts = clock.time()
            if tz is None:
                base = _dt.datetime(1970, 1, 1) + _dt.timedelta(seconds=ts + clock.tz_offset)
                return cls(base.year, base.month, base.day, base.hour, base.minute,
                           base.second, base.microsecond)
            base = _dt.datetime(1970, 1, 1, tzinfo=_dt.timezone.utc) + _dt.timedelta(seconds=ts)
            base = base.astimezone(tz)
            return cls(base.year, base.month, base.day, base.hour, base.minute,
                       base.second, base.microsecond, tzinfo=base.tzinfo)

    dshim = types.SimpleNamespace(
        datetime=VDateTime, time=_dt.time, date=_dt.date, timedelta=_dt.timedelta,
        timezone=_dt.timezone, UTC=_dt.timezone.utc)
    if not hasattr(cron, 'dt'):
        raise RuntimeError('machinery: edzed.blocklib.cron has no name "dt" to shim')
    cron.dt = dshim


def run(main_factory, *, clock_setup=None):
    """
    Run `await main_factory(loop, clock)` on a fresh virtual loop with a fresh circuit.
    Returns its result.  Leftover tasks are reported via loop.leftover (names) before
    they are cancelled.
    """
    import edzed
    loop = VLoop()
    clock = Clock(loop)
    if clock_setup:
        clock_setup(clock)
    install_clock(clock)
    asyncio.set_event_loop(loop)
    edzed.reset_circuit()
    try:
        result = loop.run_until_complete(main_factory(loop, clock))
        return result
    finally:
        try:
            pending = [t for t in asyncio.all_tasks(loop) if not t.done()]
            for t in pending:
                t.cancel()
            if pending:
                loop.run_until_complete(asyncio.gather(*pending, return_exceptions=True))
        except Exception:
            pass
        asyncio.set_event_loop(None)
        loop.close()
        try:
            edzed.reset_circuit()
        except Exception:
            pass
